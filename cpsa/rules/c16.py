"""
C16 - Excel cells render as documented text and the requested sheet is read.
"""
import datetime

from ..absint import AbsRaise, Chooser, ExtRef, GenVal, Interp, Obj, Opaque, Undecided, exc_name
from ..tablekit import decide, stub, where_of
from ..world import World

EXPLANATION = (
    "Static decision of the clauses of C16 that live in cutplace: (O16.1/O16.4) rowio.excel_rows is interpreted from "
    "source on an abstract workbook (stubbed xlrd book with three sheets of different sizes): the sheet read is the one "
    "with index 'sheet - 1', every row has the sheet's number of columns, cells appear in row-major order, a missing "
    "sheet stops with DataFormatError. (O16.2) Reader._raw_rows hands data_format.sheet to both spreadsheet readers "
    "(C17 O17.2 table). (O16.3) _excel_cell_value is decided over the cell kinds: date cells render through "
    "datetime (time only iff the date part is 0/0/0), error cells as their text, strings verbatim, other values via "
    "str() with a trailing '.0' removed for number cells only (so booleans stored as 1/0 render as '1'/'0'). (O16.5) "
    "XlsxRowWriter writes str items with write_string at (line, cell) and advances cell and line. What xlrd and "
    "xlsxwriter themselves do (cell typing, float repr, file format) is not decided."
    " Added in rounds 6 and 7: (O16.5b) a row the sheet cannot hold (text longer than 32767 characters) leaves"
    " nothing behind and the next row starts at column 0 of the next free line; an empty item keeps its column; a"
    " stored 0 is the text 0."
    " Added in rounds 8 and 9: (O16.5) a trailing row without items leaves something in its line; (O16.7) the"
    " Sheet row's number is the number the data format stores."
    " Added in round 10: (O16.5) the workbook must not be created with an option that drops blank cells"
    " (constant_memory); options are classified in two tables, an unknown one is undecided."
)
ASSUMPTIONS = ["xlrd types cells and converts dates as documented; str(float) is the shortest text denoting the value"]

XL = {name: ExtRef("xlrd.XL_CELL_" + name) for name in ("DATE", "ERROR", "NUMBER", "TEXT", "BOOLEAN", "EMPTY")}


def _book(interp, sheets, log):
    """sheets: list of (nrows, ncols)."""
    sheet_objects = []
    for index, (nrows, ncols) in enumerate(sheets):
        @stub
        def cell(interp_, args, kwargs, index=index):
            y, x = args
            log.append(("cell", index, y, x))
            return Obj("xlrd.Cell", {"ctype": XL["TEXT"], "value": "s%d:r%dc%d" % (index, y, x)})

        sheet_objects.append(Obj("xlrd.Sheet", {"nrows": nrows, "ncols": ncols, "cell": cell}, label="sheet%d" % index))

    @stub
    def sheet_by_index(interp_, args, kwargs):
        (index,) = args
        log.append(("sheet_by_index", index))
        if not isinstance(index, int) or isinstance(index, bool):
            raise Undecided("sheet_by_index(%r)" % (index,))
        if index < 0 or index >= len(sheet_objects):
            interp_.raise_("builtins.IndexError", "list index out of range")
        return sheet_objects[index]

    @stub
    def nsheets(interp_, args, kwargs):
        return len(sheet_objects)

    return Obj("xlrd.Book", {"sheet_by_index": sheet_by_index, "datemode": 0, "nsheets": len(sheet_objects),
                             "sheets": stub(lambda i, a, k: list(sheet_objects))}, label="book")


def rule_sheet_selection(ctx):
    model = ctx.model
    ctx.res.minimum("O16.1", 1)
    sizes = [(2, 2), (1, 3), (3, 1)]

    def cell(ch):
        sheet = ch.choose("sheet", [1, 2, 3, 4])
        log = []

        def open_workbook(interp_, args, kwargs):
            return _book(interp_, sizes, log)

        def with_hook(interp_, args, kwargs):
            (manager,) = args
            return manager, (lambda exc: None)

        interp = Interp(model, ch, externals={"xlrd.open_workbook": open_workbook, "with": with_hook,
                                              "os.path.basename": lambda i, a, k: "book"})
        rows = []
        try:
            generator = interp.call_function(model.func("cutplace.rowio.excel_rows"), ["book.xls", sheet], {}, None)
            for row in interp.iterate(generator):
                rows.append(row)
            outcome = "rows"
        except AbsRaise as raised:
            outcome = "raise " + exc_name(raised.value)
        if sheet > len(sizes):
            return ("sheet=%d of %d" % (sheet, len(sizes)), outcome, "raise DataFormatError")
        nrows, ncols = sizes[sheet - 1]
        expected = [["s%d:r%dc%d" % (sheet - 1, y, x) for x in range(ncols)] for y in range(nrows)]
        return ("sheet=%d of %d" % (sheet, len(sizes)), rows if outcome == "rows" else outcome, expected)

    decide(ctx, "O16.1", "excel_rows(sheet selection, row-major, full width)", "cutplace.rowio.excel_rows", cell, min_cells=4)


def rule_cell_values(ctx, rule_id="O16.3"):
    model = ctx.model
    ctx.res.minimum(rule_id, 1)
    cases = [
        # (label, ctype, value, date tuple or None, expected)
        ("text", "TEXT", "hello", None, "hello"),
        ("text that looks like a number", "TEXT", "3.0", None, "3.0"),
        ("empty", "EMPTY", "", None, ""),
        ("text cell without a stored value (formula result never cached)", "TEXT", None, None, ""),
        ("whole number", "NUMBER", 3.0, None, "3"),
        ("zero", "NUMBER", 0.0, None, "0"),
        ("negative whole number", "NUMBER", -12.0, None, "-12"),
        ("fraction", "NUMBER", 2.5, None, "2.5"),
        ("big whole number", "NUMBER", 9007199254740992.0, None, "9007199254740992"),
        ("hundred", "NUMBER", 100.0, None, "100"),
        ("trailing zeros before the dot", "NUMBER", 1200.0, None, "1200"),
        ("half", "NUMBER", 0.5, None, "0.5"),
        ("small fraction", "NUMBER", 0.0001, None, "0.0001"),
        ("exponent, fractional mantissa", "NUMBER", 1.5e20, None, "1.5e+20"),
        ("exponent ending in zero", "NUMBER", 6.25e100, None, "6.25e+100"),
        ("negative exponent", "NUMBER", 2.5e-10, None, "2.5e-10"),
        ("exponent, whole mantissa", "NUMBER", 1e20, None, "1e+20"),
        ("2^53 + 2^60 scale", "NUMBER", 1e16, None, "1e+16"),
        ("negative tiny", "NUMBER", -1.75e-300, None, "-1.75e-300"),
        ("boolean true", "BOOLEAN", 1, None, "1"),
        ("boolean false", "BOOLEAN", 0, None, "0"),
        ("date and time", "DATE", 41000.5, (2012, 4, 1, 12, 0, 0), "2012-04-01 12:00:00"),
        ("date only", "DATE", 41000.0, (2012, 4, 1, 0, 0, 0), "2012-04-01 00:00:00"),
        ("time only", "DATE", 0.75, (0, 0, 0, 18, 0, 0), "18:00:00"),
        ("midnight time only", "DATE", 0.0, (0, 0, 0, 0, 0, 0), "00:00:00"),
        ("error known", "ERROR", 0x07, None, "#DIV/0!"),
        ("error unknown", "ERROR", 0x99, None, "#N/A"),
    ]
    error_texts = {0x00: "#NULL!", 0x07: "#DIV/0!", 0x0F: "#VALUE!", 0x17: "#REF!", 0x1D: "#NAME?", 0x24: "#NUM!", 0x2A: "#N/A"}

    def cell(ch):
        label, ctype, value, date_tuple, expected = ch.choose("cell", cases)

        def xldate_as_tuple(interp_, args, kwargs):
            if args[0] != value:
                raise Undecided("xldate_as_tuple(%r)" % (args[0],))
            return date_tuple

        externals = {
            "xlrd.xldate_as_tuple": xldate_as_tuple,
            "datetime.time": lambda i, a, k: _native(i, datetime.time, a),
            "datetime.datetime": lambda i, a, k: _native(i, datetime.datetime, a),
            "builtins.str": _str_hook,
        }
        interp = Interp(model, ch, externals=externals)
        interp.module_globals.setdefault("cutplace.rowio", {})
        cell_object = Obj("xlrd.Cell", {"ctype": XL[ctype], "value": value})

        def ext_getattr(interp_, args, kwargs):
            raise Undecided("getattr %r" % (args,))

        interp.externals["subscript"] = lambda i, a, k: error_texts[a[1]] if isinstance(a[0], ExtRef) and a[0].name == "xlrd.error_text_from_code" \
            else (_ for _ in ()).throw(Undecided("subscript %r" % (a,)))
        error_map = Obj("dict-like", {"get": stub(lambda i, a, k: error_texts.get(a[0], a[1] if len(a) > 1 else None))})
        original_getattr = interp.getattr

        def patched(value_, name, node=None):
            if isinstance(value_, ExtRef) and value_.name == "xlrd.error_text_from_code" and name == "get":
                return error_map.attrs["get"]
            return original_getattr(value_, name, node)

        interp.getattr = patched
        try:
            result = interp.call_function(model.func("cutplace.rowio._excel_cell_value"), [cell_object, 0], {}, None)
        except AbsRaise as raised:
            result = "raise " + exc_name(raised.value)
        if ctype == "NUMBER" and float(value).is_integer() and isinstance(result, str):
            # "whole numbers without a fractional suffix": any text for the same value without a fractional part conforms
            # (3, 1e+16 and 10000000000000000 alike); what must not appear is a suffix of zeros after the point: "3.0" or "1.0e+16" (1.5e+20 is fine)
            import re as _re

            try:
                same_value = float(result) == value
            except ValueError:
                same_value = False
            if same_value and not _re.search(r"\.0*(e|E|$)", result):
                return (label, "whole number without fractional suffix", "whole number without fractional suffix")
            return (label, result, "whole number without fractional suffix (e.g. %s)" % expected)
        return (label, result, expected)

    decide(ctx, rule_id, "_excel_cell_value(cell kinds)", "cutplace.rowio._excel_cell_value", cell, min_cells=len(cases))


def _native(interp, constructor, args):
    """The real constructor; what it refuses is refused in the analysed code as well (as the same exception class)."""
    try:
        return constructor(*args)
    except (ValueError, TypeError, OverflowError) as error:
        interp.raise_("builtins." + type(error).__name__, str(error))


def _str_hook(interp, args, kwargs):
    (value,) = args
    if isinstance(value, (str, int, float, datetime.time, datetime.datetime)) or value is None:
        return str(value)
    raise Undecided("str(%r)" % (value,))


# Workbook options (second argument of xlsxwriter.Workbook) by what they do to a table of texts stored with write_string:
# constant_memory flushes each row when the next one starts and drops blank cells without a format - the empty items at
# the end of a row and empty rows at the end of the table are not in the file any more.
WORKBOOK_OPTIONS_THAT_LOSE_CELLS = {"constant_memory"}
WORKBOOK_OPTIONS_WITHOUT_EFFECT_ON_TEXTS = {"in_memory", "tmpdir", "strings_to_numbers", "strings_to_formulas", "strings_to_urls",
                                            "nan_inf_to_errors", "default_date_format", "remove_timezone", "use_zip64", "date_1904",
                                            "max_url_length", "use_future_functions"}


def _workbook_external(workbook, options_seen):
    def make(interp_, args, kwargs):
        options = args[1] if len(args) > 1 else kwargs.get("options")
        if options is not None:
            if not isinstance(options, dict) or not all(isinstance(name, str) for name in options):
                raise Undecided("xlsxwriter.Workbook(..., %r)" % (options,))
            for name, value in options.items():
                if name in WORKBOOK_OPTIONS_THAT_LOSE_CELLS:
                    if not isinstance(value, (bool, int)):
                        raise Undecided("Workbook option %s=%r" % (name, value))
                    if value:
                        options_seen.append(name)
                elif name not in WORKBOOK_OPTIONS_WITHOUT_EFFECT_ON_TEXTS:
                    raise Undecided("Workbook option %r is in neither table of c16.py" % (name,))
        return workbook

    return make


def rule_xlsx_writer(ctx):
    model = ctx.model
    ctx.res.minimum("O16.5", 1)

    def cell(ch):
        rows = ch.choose("rows", [[["a"]], [["a", "b"], ["c", "d"]], [["a", "b", "c"], ["d"]], [["1", "", "x"]], [["", "a"], ["b", ""]], [["a"], []], [[], ["a"]]])
        entry = ch.choose("written with", ["write_row", "write_rows"])
        # xlsxwriter reports what it could not store through the return code: 0 = stored, -1 = outside the sheet,
        # -2 = text longer than 32767 characters (truncated)
        return_code = ch.choose("write_string returns", [0, -1, -2])
        log = []

        @stub
        def write_string(interp_, args, kwargs):
            log.append(("write_string",) + tuple(args))
            return return_code

        @stub
        def write(interp_, args, kwargs):
            log.append(("write",) + tuple(args))

        worksheet = Obj("xlsxwriter.Worksheet", {"write_string": write_string, "write": write, "xls_strmax": 32767, "xls_colmax": 16384,
                                                  "xls_rowmax": 1048576})
        workbook = Obj("xlsxwriter.Workbook", {"add_worksheet": stub(lambda i, a, k: worksheet), "close": stub(lambda i, a, k: log.append(("close",)))})
        lossy_options = []
        interp = Interp(model, ch, externals={"xlsxwriter.Workbook": _workbook_external(workbook, lossy_options),
                                              "os.path.basename": lambda i, a, k: "x"})
        from ..absint import ClassRef

        writer = interp.instantiate(ClassRef(model.cls("cutplace.rowio.XlsxRowWriter")), ["target.xlsx"], {})
        key = "%s rows=%r write_string returns %d" % (entry, rows, return_code)
        try:
            if entry == "write_rows":
                interp.call(interp.getattr(writer, "write_rows"), [rows], {})
            else:
                for row in rows:
                    interp.call(interp.getattr(writer, "write_row"), [row], {})
            outcome = "written"
        except AbsRaise as raised:
            outcome = "raise " + exc_name(raised.value)
        interp.call_function(model.func("cutplace.rowio.XlsxRowWriter.close"), [writer], {}, None)
        if lossy_options:
            return (key, "the workbook is created with %s: blank cells at the end of rows and of the table are not stored"
                    % ", ".join(lossy_options), "every item keeps its cell")
        if return_code != 0:
            # an item the sheet cannot hold must not be dropped or cut silently: "reads back identically"
            return (key, outcome, "raise DataFormatError")
        # an empty item may be stored as an empty string or left out (both read back as ""), but it keeps its column
        expected = [("write_string", y, x, item) for y, row in enumerate(rows) for x, item in enumerate(row) if item != ""] + [("close",)]
        empty_places = {(y, x) for y, row in enumerate(rows) for x, item in enumerate(row) if item == ""}
        # a row without any item is a row of the table too: something (an empty text) has to be stored in its line, or the
        # rows after it move up and a trailing one disappears when the sheet is read back
        empty_lines = [y for y, row in enumerate(rows) if not row]
        written_lines = {entry_[1] for entry_ in log if entry_[0] in ("write_string", "write")}
        # an empty line between stored lines is part of the sheet anyway; one after the last stored line is not
        lost = [y for y in empty_lines if y not in written_lines and not any(line > y for line in written_lines)]
        if lost and outcome == "written":
            return (key, "row %d (no items, last of the table) leaves nothing in the sheet" % lost[0], "every row keeps its line")
        stored = [entry_ for entry_ in log if not (entry_[0] == "write_string" and len(entry_) == 4 and entry_[3] == ""
                                                   and (entry_[1:3] in empty_places or entry_[1] in empty_lines))]
        return (key, (outcome, stored), ("written", expected))

    decide(ctx, "O16.5", "XlsxRowWriter(write_string at line/cell)", "cutplace.rowio.XlsxRowWriter.write_row", cell, min_cells=40, max_report=4)


def rule_xlsx_writer_rejected_rows(ctx):
    """O16.5b: a row the sheet cannot hold (a text longer than 32767 characters) is refused as a whole: nothing of it stays
    in the sheet and the next row starts at the first column of the next free line - otherwise the table that was written
    (the accepted rows) does not read back identically.  The worksheet stub answers like xlsxwriter: write_string returns
    -2 for a text that is too long, and the limits are the attributes xls_strmax / xls_colmax / xls_rowmax."""
    from ..absint import ClassRef

    model = ctx.model
    ctx.res.minimum("O16.5b", 1)
    too_long = "x" * 32768

    def cell(ch):
        position = ch.choose("the item that is too long is item", [0, 1, 2])
        entry = ch.choose("rows before", [0, 1])
        log = []

        @stub
        def write_string(interp_, args, kwargs):
            log.append(("write_string", args[0], args[1], args[2] if len(args[2]) < 10 else "<too long>"))
            return -2 if len(args[2]) > 32767 else 0

        worksheet = Obj("xlsxwriter.Worksheet", {"write_string": write_string, "write": write_string, "xls_strmax": 32767, "xls_colmax": 16384,
                                                  "xls_rowmax": 1048576})
        workbook = Obj("xlsxwriter.Workbook", {"add_worksheet": stub(lambda i, a, k: worksheet), "close": stub(lambda i, a, k: None)})
        interp = Interp(model, ch, externals={"xlsxwriter.Workbook": _workbook_external(workbook, []), "os.path.basename": lambda i, a, k: "x"})
        writer = interp.instantiate(ClassRef(model.cls("cutplace.rowio.XlsxRowWriter")), ["target.xlsx"], {})
        write_row = interp.getattr(writer, "write_row")
        good_rows = [["1", "2", "3"]] * entry
        for row in good_rows:
            interp.call(write_row, [list(row)], {})
        bad_row = ["a", "b", "c"]
        bad_row[position] = too_long
        key = "%d row(s), then a row whose item %d is too long, then a row" % (entry, position)
        try:
            interp.call(write_row, [bad_row], {})
            return (key, "the row is accepted", "raise DataFormatError")
        except AbsRaise as raised:
            if exc_name(raised.value) != "DataFormatError":
                return (key, "raise " + exc_name(raised.value), "raise DataFormatError")
        try:
            interp.call(write_row, [["4", "5", "6"]], {})
        except AbsRaise as raised:
            return (key, "the writer cannot continue: " + exc_name(raised.value), "continues")
        stored = {}
        for _, line, column, text in log:
            stored[(line, column)] = text
        expected = {}
        for line, row in enumerate(good_rows + [["4", "5", "6"]]):
            for column, text in enumerate(row):
                expected[(line, column)] = text
        return (key, sorted(stored.items()), sorted(expected.items()))

    decide(ctx, "O16.5b", "XlsxRowWriter(a rejected row leaves nothing behind)", "cutplace.rowio.XlsxRowWriter.write_row", cell, min_cells=6, max_report=3)


def rule_sheet_property(ctx):
    """O16.7: "the sheet that is read is the one the Sheet property requests": the number in the Sheet row is the number the
    data format stores (C11's set_property table; O16.6 takes it from there to excel_rows)."""
    from .c11 import rule_set_property

    ctx.res.minimum("O16.7", 1)
    rule_set_property(ctx, rule="O16.7")


def rule_raw_rows_dispatch(ctx):
    """O16.6: the requested sheet number reaches excel_rows."""
    from .c17 import raw_rows_dispatch_table

    ctx.res.minimum("O16.6", 1)
    raw_rows_dispatch_table(ctx, "O16.6")


from .common import rule_module_state  # noqa: E402

RULES = [rule_sheet_selection, rule_cell_values, rule_xlsx_writer, rule_xlsx_writer_rejected_rows, rule_raw_rows_dispatch, rule_sheet_property, rule_module_state]
