"""
C17 - the storage format of CID and data does not change the verdict.
"""
import os

from ..absint import AbsIter, AbsRaise, Chooser, ClassRef, Interp, Obj, Opaque, Undecided, exc_name
from ..tablekit import decide, stub, where_of
from ..world import World

EXPLANATION = (
    "Static decision of the necessary conditions of C17: (O17.1) rowio.auto_rows is interpreted from source on path "
    "suffixes {ods, ODS, xls, xlsx, XLSX, csv, none} and a text stream: ODS and Excel files go to their reader, everything "
    "else to delimited_rows with a validated UTF-8 comma format. (O17.2) Reader._raw_rows is interpreted for each of the "
    "four valid formats (folded from data._VALID_FORMATS): each has a branch that calls the matching rowio reader with "
    "the data format's own settings (sheet / encoding + field widths + line delimiter); Writer.__init__ builds the "
    "matching row writer for the two text formats. (O17.3) every built-in field type is constructed by the repository's "
    "own constructors under a DataFormat built by DataFormat.__init__ for each of the four formats: construction must "
    "never fail with AttributeError (a property that exists for some formats only must not be read unguarded), so each "
    "field type loads under every Format property. Equality of verdicts across formats beyond these is not decided."
    " Added in rounds 6 and 7: (O17.6/O17.7) the Excel reader's cell texts (C16's table) and the delimited"
    " reader's untranslated line ends (C12's newline rule) are obligations of C17 as well."
)
ASSUMPTIONS = ["the readers deliver the same logical table for the same contents (C12, C13, C15, C16)"]

FIELD_TYPES = ["Choice", "Constant", "Decimal", "Integer", "DateTime", "RegEx", "Pattern", "Text"]


def _path_externals():
    return {
        "os.path.splitext": lambda interp, args, kwargs: tuple(os.path.splitext(args[0])) if isinstance(args[0], str)
        else (_ for _ in ()).throw(Undecided("splitext(%r)" % (args[0],))),
        "isinstance:io.BytesIO": lambda interp, args, kwargs: False,
        "codecs.lookup": lambda interp, args, kwargs: Opaque("codec"),
    }


def rule_auto_rows(ctx):
    model = ctx.model
    ctx.res.minimum("O17.1", 1)

    def cell(ch):
        source = ch.choose("source", ["cid.ods", "CID.ODS", "cid.xls", "cid.xlsx", "Cid.XLSX", "cid.csv", "cid.txt", "cid", "<stream>"])
        calls = []

        def reader_stub(name):
            @stub
            def handler(interp, args, kwargs):
                calls.append((name, args))
                return Opaque("rows of " + name)

            return handler

        stubs = {"cutplace.rowio." + name: reader_stub(name) for name in ("ods_rows", "excel_rows", "delimited_rows")}
        interp = Interp(model, ch, stubs=stubs, externals=_path_externals())
        argument = World(model, interp, ch).stream() if source == "<stream>" else source
        try:
            interp.call_function(model.func("cutplace.rowio.auto_rows"), [argument], {}, None)
        except AbsRaise as raised:
            return (source, "raise " + exc_name(raised.value), "one reader")
        suffix = source.rsplit(".", 1)[-1].lower() if "." in source else ""
        expected_reader = {"ods": "ods_rows", "xls": "excel_rows", "xlsx": "excel_rows"}.get(suffix, "delimited_rows")
        if len(calls) != 1 or calls[0][0] != expected_reader or calls[0][1][0] is not argument:
            return (source, [name for name, _ in calls], [expected_reader])
        if expected_reader == "delimited_rows":
            data_format = calls[0][1][1]
            actual = (data_format.attrs.get("_format"), data_format.attrs.get("_encoding"), data_format.attrs.get("_item_delimiter"),
                      data_format.attrs.get("_is_valid"))
            return (source, actual, ("delimited", "utf-8", ",", True))
        return (source, "ok", "ok")

    decide(ctx, "O17.1", "auto_rows(suffix dispatch)", "cutplace.rowio.auto_rows", cell, min_cells=9)


def raw_rows_dispatch_table(ctx, rule, valid_formats=None):
    """Reader._raw_rows hands the source to the reader of the declared format with the settings of the data format and
    passes every row on exactly as delivered (used by C04, C13, C16 and C17)."""
    model = ctx.model
    if valid_formats is None:
        valid_formats = Interp(model, Chooser()).global_lookup(model.module("cutplace.data"), "_VALID_FORMATS")

    def cell(ch):
        format_name = ch.choose("format", list(valid_formats))
        calls = []
        # rows as a reader delivers them: also with empty trailing cells, too few and too many cells
        cell_a, cell_b = Opaque("str", True, ["<a>"]), Opaque("str", True, ["<b>"])
        delivered = [[cell_a, "", ""], [], [cell_b]]
        line_delimiter = ch.choose("line delimiter", ["\r", None]) if format_name == "fixed" else "\r"

        def reader_stub(name):
            @stub
            def handler(interp, args, kwargs):
                calls.append((name, list(args) + sorted(kwargs.items())))
                return AbsIter(lambda index: delivered[index] if index < len(delivered) else AbsIter.STOP, "rows of " + name)

            return handler

        stubs = {"cutplace.rowio." + name: reader_stub(name) for name in ("ods_rows", "excel_rows", "delimited_rows", "fixed_rows")}

        @stub
        def lengths_stub(interp, args, kwargs):
            return "FIELD-LENGTHS"

        stubs["cutplace.interface.field_names_and_lengths"] = lengths_stub
        interp = Interp(model, ch, stubs=stubs)
        world = World(model, interp, ch)
        extra = {"_sheet": 3} if format_name in ("excel", "ods") else {"_line_delimiter": line_delimiter, "_encoding": "latin-1"}
        data_format = world.data_format(format_name, **extra)
        cid = world.cid([world.recording_field(0)], [], data_format)
        stream = world.stream()
        key = format_name if format_name != "fixed" else "fixed, line delimiter %r" % (line_delimiter,)
        try:
            reader = interp.instantiate(ClassRef(model.cls("cutplace.validio.Reader")), [cid, stream], {})
            result = interp.call_function(model.func("cutplace.validio.Reader._raw_rows"), [reader], {}, None)
            rows = list(interp.iterate(result))
        except AbsRaise as raised:
            return (key, "raise " + exc_name(raised.value), "one reader")
        expected = {
            "excel": ("excel_rows", [stream, 3]),
            "ods": ("ods_rows", [stream, 3]),
            "delimited": ("delimited_rows", [stream, data_format]),
            "fixed": ("fixed_rows", [stream, "latin-1", "FIELD-LENGTHS", line_delimiter]),
        }[format_name]
        actual = calls[0] if len(calls) == 1 else calls
        same = len(calls) == 1 and calls[0][0] == expected[0] and len(calls[0][1]) == len(expected[1]) and all(
            (a is e) or (not isinstance(e, Obj) and a == e) for a, e in zip(calls[0][1], expected[1]))
        if not same:
            return (key, "reader called as " + repr(actual), "reader called with the settings of the data format")
        def same_row(a, b):
            return isinstance(a, (list, tuple)) and len(a) == len(b) and all(x is y or (isinstance(y, str) and isinstance(x, str) and x == y) for x, y in zip(a, b))

        reference = [[cell_a, "", ""], [], [cell_b]]
        if len(rows) != 3 or not all(same_row(a, b) for a, b in zip(rows, reference)):
            return (key, "rows passed on: %r" % (rows,), "every row exactly as the reader delivered it")
        return (key, "ok", "ok")

    decide(ctx, rule, "Reader._raw_rows(format dispatch)", "cutplace.validio.Reader._raw_rows", cell, min_cells=5)


def rule_raw_rows(ctx):
    model = ctx.model
    ctx.res.minimum("O17.2", 2)
    valid_formats = Interp(model, Chooser()).global_lookup(model.module("cutplace.data"), "_VALID_FORMATS")
    if sorted(valid_formats) != ["delimited", "excel", "fixed", "ods"]:
        ctx.res.fail("O17.2", "valid formats", "data._VALID_FORMATS:O17.2:set", "cutplace/data.py", "valid formats fold to %r" % (valid_formats,))
        return

    raw_rows_dispatch_table(ctx, "O17.2", valid_formats)

    def writer_cell(ch):
        format_name = ch.choose("format", ["delimited", "fixed", "excel", "ods"])
        made = []

        def writer_stub(name):
            @stub
            def handler(interp, args, kwargs):
                made.append(name)
                return Obj(model.cls("cutplace.rowio." + name), {}, label=name)

            return handler

        stubs = {"cutplace.rowio." + name: writer_stub(name) for name in ("DelimitedRowWriter", "FixedRowWriter")}

        @stub
        def lengths_stub(interp, args, kwargs):
            return "FIELD-LENGTHS"

        stubs["cutplace.interface.field_names_and_lengths"] = lengths_stub
        interp = Interp(model, ch, stubs=stubs)
        world = World(model, interp, ch)
        cid = world.cid([world.recording_field(0)], [], world.data_format(format_name))
        try:
            interp.instantiate(ClassRef(model.cls("cutplace.validio.Writer")), [cid, world.stream()], {})
            outcome = made
        except AbsRaise as raised:
            outcome = "raise " + exc_name(raised.value)
        expected = {"delimited": ["DelimitedRowWriter"], "fixed": ["FixedRowWriter"]}.get(format_name, "raise NotImplementedError")
        return (format_name, outcome, expected)

    decide(ctx, "O17.2", "Writer.__init__(format dispatch)", "cutplace.validio.Writer.__init__", writer_cell, min_cells=4)


def _field_construction(model, ch, field_type, format_name):
    @stub
    def range_stub(interp, args, kwargs):
        return Obj(model.cls("cutplace.ranges.Range"), {"_items": None, "_lower_limit": None, "_upper_limit": None, "_description": None},
                   label="range")

    @stub
    def decimal_range_stub(interp, args, kwargs):
        return Obj(model.cls("cutplace.ranges.DecimalRange"), {"_items": None, "_precision": 2, "_scale": 5, "_lower_limit": None,
                                                              "_upper_limit": None}, label="decimal range")

    @stub
    def tokens_stub(interp, args, kwargs):
        import token as _token

        sequence = [(_token.NAME, "x", (1, 0), (1, 1), "x"), (_token.ENDMARKER, "", (1, 1), (1, 1), "")]
        return AbsIter(lambda index: sequence[index] if index < len(sequence) else AbsIter.STOP, "tokens")

    stubs = {"cutplace.ranges.Range": range_stub, "cutplace.ranges.DecimalRange": decimal_range_stub,
             "cutplace._tools.tokenize_without_space": tokens_stub}
    externals = {"fnmatch.translate": lambda interp, args, kwargs: "x", "codecs.lookup": lambda interp, args, kwargs: Opaque("codec")}
    interp = Interp(model, ch, stubs=stubs, externals=externals)
    data_format = interp.instantiate(ClassRef(model.cls("cutplace.data.DataFormat")), [format_name], {})
    field_class = model.cls("cutplace.fields.%sFieldFormat" % field_type)
    rule = {"Choice": "x", "Constant": "x", "DateTime": "DD.MM.YYYY", "RegEx": "x", "Pattern": "x"}.get(field_type, "")
    try:
        field = interp.instantiate(ClassRef(field_class), ["f0", False, "", rule, data_format], {})
        return "constructed", field
    except AbsRaise as raised:
        outcome = "raise " + exc_name(raised.value)
        if exc_name(raised.value) == "AttributeError":
            outcome += " (%s)" % (raised.value.attrs.get("args") or ("?",))[0]
        return outcome, None


def _summary(value):
    if isinstance(value, Obj):
        return "<%s>" % (value.cls_name.rsplit(".", 1)[-1])
    if isinstance(value, (list, tuple)):
        return [_summary(item) for item in value]
    if type(value).__name__ == "ReObj":
        return "re(%r, %r)" % (value.pattern, value.flags)
    if isinstance(value, dict):
        return sorted((repr(key), _summary(item)) for key, item in value.items())
    return repr(value)


def rule_attribute_availability(ctx):
    model = ctx.model
    ctx.res.minimum("O17.3", 2)

    def cell(ch):
        field_type = ch.choose("type", FIELD_TYPES)
        format_name = ch.choose("format", ["delimited", "fixed", "excel", "ods"])
        outcome, _ = _field_construction(model, ch, field_type, format_name)
        return ("%s under format %s" % (field_type, format_name), outcome, "constructed")

    decide(ctx, "O17.3", "field construction under every format", "cutplace.fields.AbstractFieldFormat.__init__", cell, min_cells=32)

    def state_cell(ch):
        # with the default separators a field is the same validator whatever the Format property says: what the
        # constructor stores (apart from the reference to the data format itself) must not depend on the format
        field_type = ch.choose("type", FIELD_TYPES)
        states = {}
        for format_name in ("delimited", "fixed", "excel", "ods"):
            outcome, field = _field_construction(model, ch, field_type, format_name)
            if field is None:
                return (field_type, "%s under %s" % (outcome, format_name), "same state")
            states[format_name] = {name: _summary(value) for name, value in field.attrs.items() if name not in ("_data_format", "data_format")}
        reference = states["delimited"]
        differences = sorted("%s: %s under %s, %s under delimited" % (name, other.get(name), format_name, reference.get(name))
                             for format_name, other in states.items() for name in set(other) | set(reference)
                             if other.get(name) != reference.get(name))
        return (field_type, "; ".join(differences) if differences else "same state", "same state")

    decide(ctx, "O17.3", "fields store the same state under every format", "cutplace.fields.AbstractFieldFormat.__init__", state_cell, min_cells=8)


def rule_format_independent_hooks(ctx):
    """
    O17.4: the same text cell gets the same verdict whatever the Format property says.  (a) no value hook reads the data
    format except DateTime's documented Excel rule; (b) DateTime.validated_value is interpreted for every format on
    the same cell with the same library outcome: the call to time.strptime and the verdict agree across formats, the
    only exception being the documented removal of Excel's ' 00:00:00' for rules WITHOUT a time part.
    """
    import ast

    from ..absint import Atom
    from ..model import walk_own

    model = ctx.model
    ctx.res.minimum("O17.4", 9)
    for cls in model.subclasses(model.cls("cutplace.fields.AbstractFieldFormat")):
        hook = cls.methods.get("validated_value")
        if hook is None:
            continue
        reads = [ast.unparse(node) for node in walk_own(hook.node) if isinstance(node, ast.Attribute) and node.attr in ("data_format", "_data_format")]
        what = "%s.validated_value does not depend on the data format" % cls.name
        if reads and cls.name != "DateTimeFieldFormat":
            ctx.res.fail("O17.4", what, "%s.validated_value:O17.4:data_format" % cls.qualname.replace("cutplace.", ""),
                         "%s (%s.validated_value)" % (hook.loc(), cls.name),
                         "the value hook reads %s: the same cell may get a different verdict under another Format" % reads[0])
        else:
            ctx.res.ok("O17.4", what + (" (DateTime: decided by the relational table)" if reads else ""), True)

    datetime_cls = model.cls("cutplace.fields.DateTimeFieldFormat")

    def run(ch, rule, format_name, value, parses):
        seen = []
        parsed = Atom("time-tuple", "time-tuple", is_str=False)

        def strptime(interp_, args, kwargs):
            seen.append(tuple(args))
            if parses == "ValueError":
                interp_.raise_("builtins.ValueError", "does not match")
            return parsed

        interp = Interp(model, ch, externals={"time.strptime": strptime, "sys.exc_info": lambda i, a, k: (None, Opaque("error"), None)},
                        stubs={"cutplace.ranges.Range": stub(lambda i, a, k: Obj(model.cls("cutplace.ranges.Range"), {}))})
        world = World(model, interp, ch)
        field = interp.instantiate(ClassRef(datetime_cls), ["d", False, "", rule, world.data_format(format_name)], {})
        try:
            result = interp.call_function(model.func("cutplace.fields.DateTimeFieldFormat.validated_value"), [field, value], {}, None)
            outcome = "time-tuple" if result is parsed else repr(result)
        except AbsRaise as raised:
            outcome = "raise " + exc_name(raised.value)
        return (tuple(seen), outcome)

    def cell(ch):
        rule = ch.choose("rule", ["YYYY-MM-DD", "YYYY-MM-DD hh:mm:ss", "hh:mm:ss", "DD.MM.YY hh:mm"])
        value = ch.choose("cell", ["2012-04-01", "2012-04-01 00:00:00", "2012-04-01 12:30:00", "00:00:00"])
        parses = ch.choose("strptime", ["ok", "ValueError"])
        reference = run(ch, rule, "delimited", value, parses)
        problems = []
        for format_name in ("ods", "excel", "fixed"):
            other = run(ch, rule, format_name, value, parses)
            documented_exception = format_name == "excel" and "hh" not in rule and value.endswith(" 00:00:00")
            if other != reference and not documented_exception:
                problems.append("format %s: %r, delimited: %r" % (format_name, other, reference))
        return ("rule=%r cell=%r strptime=%s" % (rule, value, parses), "; ".join(problems) if problems else "same verdict", "same verdict")

    decide(ctx, "O17.4", "DateTime verdict is independent of the format", "cutplace.fields.DateTimeFieldFormat.validated_value", cell, min_cells=32)


def rule_cells_are_judged_alike(ctx):
    """O17.8 (round 11; C03's table of validated()): only fixed-width cells are stripped of their padding - the cells
    of ods, excel and delimited data reach the guards and the hook exactly as stored, so a cell of blanks or with blanks
    around it gets the same verdict whichever container holds it."""
    from .c03 import validated_table

    ctx.res.minimum("O17.8", 1)
    validated_table(ctx, "O17.8")


def rule_ods_cell_texts(ctx):
    """O17.5: a cell means the same text whether it is stored as ODS or as delimited text: the ODS reader reconstructs the logical cell text (C15's table)."""
    from .c15 import rule_cell_texts

    rule_cell_texts(ctx, "O17.5")


def rule_other_containers_cell_texts(ctx):
    """O17.6 / O17.7: the same holds for the other two containers: the Excel reader delivers the text of the stored value
    (C16's table) and the delimited reader opens its file untranslated, so a carriage return inside a quoted cell is the
    carriage return the ODS and Excel copies hold (C12's rule on newline='')."""
    from .c12 import rule_newline
    from .c16 import rule_cell_values

    rule_cell_values(ctx, "O17.6")
    rule_newline(ctx, rule="O17.7", sites=(("cutplace.rowio.delimited_rows", "r"),))


from .common import rule_module_state  # noqa: E402

RULES = [rule_auto_rows, rule_raw_rows, rule_attribute_availability, rule_format_independent_hooks, rule_cells_are_judged_alike, rule_ods_cell_texts, rule_other_containers_cell_texts, rule_module_state]
