"""
C12 - delimited data round-trips through write and read for every accepted format.
"""
import ast

from ..absint import AbsRaise, Atom, Chooser, ClassRef, GenVal, Interp, Obj, Opaque, exc_name
from ..model import dotted, walk_own
from ..tablekit import decide, decide_kinds, stub, where_of
from ..world import World
from .c11 import ESCAPE_VALUES, ITEM_VALUES, LINE_VALUES, QUOTE_VALUES, _new_format

EXPLANATION = (
    "What must hold inside cutplace for ANY csv implementation to round-trip, decided statically: (O12.1) "
    "delimited_rows and DelimitedRowWriter are interpreted from source with recording csv.reader / csv.writer stubs for "
    "every combination of item delimiter, quote, escape, quoting and skip-initial-space representatives: reader and "
    "writer receive the SAME dialect keywords (the writer additionally its line terminator), all derived from the data "
    "format. (O12.2) the dialect builder: escape = quote gives doublequote without escapechar, otherwise escapechar = "
    "escape without doublequote; strict is on; delimiter, quotechar, quoting, skipinitialspace are the format's values. "
    "(O12.3) every accepted (validate() returns) delimited configuration must be one the csv dialect can disambiguate: "
    "the item delimiter differs from the quote character, from an escape character that differs from the quote, from CR "
    "and LF (the csv reader ends a record at either, whatever the declared line delimiter) and from the line delimiter. "
    "(O12.4) both io.open calls for delimited text pass newline='' so that embedded line breaks survive. The csv "
    "module's own quoting and escaping algorithm is not decided (round-trip equality is a runtime relation)."
    " Added in rounds 6 and 7: (O12.3) an accepted configuration's item delimiter exists in the declared encoding."
    " Added in rounds 8 and 9: (O12.3) item delimiter, quote and escape character survive encode().decode() in the"
    " declared encoding. (O12.8) a row writer given a path closes the file it opened."
    " Added in round 10: (O14.1, shared with C14) every row the delimited writer emits ends with exactly the"
    " declared line delimiter."
)
ASSUMPTIONS = ["the csv module writes and reads consistently for a dialect without contradictory roles"]


def _run_reader_writer(model, ch, attributes):
    seen = {}

    def csv_reader(interp, args, kwargs):
        seen["reader"] = (args, dict(kwargs))
        return []

    def csv_writer(interp, args, kwargs):
        seen["writer"] = (args, dict(kwargs))
        return Obj("csv.writer", {"writerow": stub(lambda i, a, k: None)})

    def string_io(interp, args, kwargs):
        return Obj("io.StringIO", {"is_row_buffer": True}, label="row buffer")

    interp = Interp(model, ch, externals={"csv.reader": csv_reader, "csv.writer": csv_writer, "io.StringIO": string_io})
    world = World(model, interp, ch)
    data_format = world.data_format("delimited", **attributes)
    stream = world.stream()
    generator = interp.call_function(model.func("cutplace.rowio.delimited_rows"), [stream, data_format], {}, None)
    for _ in interp.iterate(generator):
        pass
    interp.instantiate(ClassRef(model.cls("cutplace.rowio.DelimitedRowWriter")), [stream, data_format], {})
    return seen, stream


def rule_every_csv_row_is_passed_on(ctx, rule_id="O12.9"):
    """Round 11: delimited_rows hands on every row the csv reader yields, in order and unchanged - also the row without
    items that the csv module reports for a blank line (it is a row of the data: it has a number, it is rejected for its
    item count, and every row after it keeps its own number)."""
    model = ctx.model
    ctx.res.minimum(rule_id, 1)

    def cell(ch):
        position = ch.choose("position of the row without items", ["none", 0, 1, 2])
        rows = [[Atom("a", "a")], [Atom("b", "b"), Atom("c", "c")]]
        if position != "none":
            rows.insert(position, [])

        def csv_reader(interp, args, kwargs):
            return [list(row) for row in rows]

        interp = Interp(model, ch, externals={"csv.reader": csv_reader})
        world = World(model, interp, ch)
        data_format = world.data_format("delimited", _item_delimiter=",", _quote_character='"', _escape_character='"', _quoting=0,
                                        _skip_initial_space=False, _line_delimiter="any")
        generator = interp.call_function(model.func("cutplace.rowio.delimited_rows"), [world.stream(), data_format], {}, None)
        try:
            actual = [list(row) if isinstance(row, (list, tuple)) else row for row in interp.iterate(generator)]
        except AbsRaise as raised:
            return ("blank line at %s" % position, "raise " + exc_name(raised.value), "the rows of the csv reader")
        same = len(actual) == len(rows) and all(isinstance(a, list) and len(a) == len(b) and all(x is y for x, y in zip(a, b))
                                                for a, b in zip(actual, rows))
        return ("blank line at %s" % position, "the rows of the csv reader" if same else "%d of %d rows: %r" % (len(actual), len(rows), actual),
                "the rows of the csv reader")

    decide(ctx, rule_id, "delimited_rows passes on every row of the csv reader", "cutplace.rowio.delimited_rows", cell, min_cells=4)


def rule_dialect(ctx):
    model = ctx.model
    ctx.res.minimum("O12.1", 1)

    def cell(ch):
        attributes = {
            "_item_delimiter": ch.choose("item", [",", ";", "\t"]),
            "_quote_character": ch.choose("quote", QUOTE_VALUES),
            "_escape_character": ch.choose("escape", ESCAPE_VALUES),
            "_quoting": ch.choose("quoting", [0, 1]),
            "_skip_initial_space": ch.choose("skip", [False, True]),
            "_line_delimiter": ch.choose("line", ["any", "\n"]),
        }
        key = " ".join("%s=%r" % (k[1:], v) for k, v in sorted(attributes.items()))
        try:
            seen, stream = _run_reader_writer(model, ch, attributes)
        except AbsRaise as raised:
            return (key, "raise " + exc_name(raised.value), "conforms")
        problems = []
        if "reader" not in seen or "writer" not in seen:
            return (key, "csv.reader / csv.writer not both constructed", "conforms")
        writer_target = seen["writer"][0][0]
        # the writer formats into the stream itself, an in-memory buffer, or a sink object of the repository's own class
        own_sink = isinstance(writer_target, Obj) and not isinstance(writer_target.cls, str)
        if seen["reader"][0][0] is not stream or not (writer_target is stream or own_sink
                                                      or (isinstance(writer_target, Obj) and writer_target.attrs.get("is_row_buffer"))):
            problems.append("reader/writer not attached to the given stream (or a row buffer)")
        reader_keywords = dict(seen["reader"][1])
        writer_keywords = dict(seen["writer"][1])
        terminator = writer_keywords.pop("lineterminator", None)
        reader_keywords.pop("lineterminator", None)
        reader_keywords.pop("dialect", None)
        writer_keywords.pop("dialect", None)
        if reader_keywords != writer_keywords:
            problems.append("reader and writer dialects differ: %r vs %r" % (reader_keywords, writer_keywords))
        same_role = attributes["_escape_character"] == attributes["_quote_character"]
        expected = {
            "delimiter": attributes["_item_delimiter"], "quotechar": attributes["_quote_character"], "quoting": attributes["_quoting"],
            "skipinitialspace": attributes["_skip_initial_space"], "strict": True,
            "doublequote": same_role, "escapechar": None if same_role else attributes["_escape_character"],
        }
        if reader_keywords != expected:
            problems.append("dialect is %r, expected %r" % (reader_keywords, expected))
        effective_terminator = "\r\n" if terminator is None else terminator
        if not ("\r" in effective_terminator and "\n" in effective_terminator):
            # QUOTE_MINIMAL quotes an item only if it contains the delimiter, the quote character or a character of the
            # csv writer's line terminator: with a terminator of just LF an item containing CR is written unquoted and the
            # reader ends the row at it (the declared line delimiter is applied when the formatted row is written - C14)
            problems.append("csv writer terminator %r: items containing the other line break character are not quoted" % (effective_terminator,))
        return (key, "; ".join(problems) if problems else "conforms", "conforms")

    decide(ctx, "O12.1", "delimited reader/writer dialect agreement", "cutplace.rowio._as_delimited_keywords", cell, min_cells=90)


def rule_accepted_configurations(ctx):
    model = ctx.model
    ctx.res.minimum("O12.3", 1)

    def cell(ch):
        interp = Interp(model, ch)
        data_format = _new_format(interp, model, "delimited")
        chosen = {
            "_item_delimiter": ch.choose("item", ITEM_VALUES + ["|", "\u20ac", "\x80", "\u00a5"]),
            "_quote_character": ch.choose("quote", QUOTE_VALUES + ["%"]),
            "_escape_character": ch.choose("escape", ESCAPE_VALUES),
            "_line_delimiter": ch.choose("line", LINE_VALUES),
        }
        # the characters the writer inserts itself must exist in the encoding of the file
        if chosen["_item_delimiter"] in ("\u20ac", "\x80", "\u00a5") or chosen["_quote_character"] == "%":
            # cp864 has no '%' (0x25 is the Arabic percent sign there), shift_jis writes the yen sign as the byte of '\\'
            chosen["_encoding"] = ch.choose("encoding", ["cp1252", "ascii", "utf-8", "latin-1", "cp864", "shift_jis"])
        data_format.attrs.update(chosen)
        try:
            interp.call_function(model.func("cutplace.data.DataFormat.validate"), [data_format], {}, None)
            accepted = True
        except AbsRaise as raised:
            if exc_name(raised.value) != "InterfaceError":
                return ("%r" % (chosen,), "validate raises " + exc_name(raised.value), "")
            accepted = False
        key = " ".join("%s=%r" % (k[1:], v) for k, v in sorted(chosen.items()))
        if not accepted:
            return (key, None, None)
        item, quote, escape, line = (chosen[k] for k in ("_item_delimiter", "_quote_character", "_escape_character", "_line_delimiter"))
        if item == quote:
            return (key, "accepted although item delimiter = quote character", key)
        if escape != quote and item == escape:
            return (key, "accepted although item delimiter = escape character (which differs from the quote character)", key)
        if item in ("\r", "\n"):
            return (key, "accepted although the item delimiter is a line break character", key)
        if item == line:
            return (key, "accepted although item delimiter = line delimiter", key)
        encoding = chosen.get("_encoding", data_format.attrs.get("_encoding"))
        if isinstance(encoding, str):
            for what, character in (("item delimiter", item), ("quote character", quote), ("escape character", escape)):
                try:
                    survives = character.encode(encoding).decode(encoding) == character
                except UnicodeError:
                    survives = False
                if not survives:
                    return (key, "accepted although the %s does not survive the encoding (rows that need it cannot be written or do not read back)" % what, key)
        return (key, None, None)

    decide_kinds(ctx, "O12.3", "accepted delimited configurations are representable by the csv dialect", "cutplace.data.DataFormat.validate",
                 cell, min_cells=100)


def rule_newline(ctx, rule="O12.4", sites=(("cutplace.rowio.delimited_rows", "r"), ("cutplace.rowio.AbstractRowWriter.__init__", "w"))):
    """Text files whose line ends are data (delimited and fixed-width text) are opened with newline="": otherwise the
    text layer translates CR and CR LF to LF on reading (and LF to os.linesep on writing) before cutplace sees them."""
    model = ctx.model
    ctx.res.minimum(rule, len(sites))
    from ..model import AnalysisError, FuncInfo
    from .c10 import analysis

    graph = analysis(model)[0].graph

    def open_calls(info, depth=0, seen=None):
        """open() calls of the function and of the repository helpers it calls (an extracted helper keeps the rule)."""
        seen = seen if seen is not None else set()
        if info.qualname in seen or depth > 2:
            return []
        seen.add(info.qualname)
        found = []
        for node in walk_own(info.node):
            if isinstance(node, ast.Call):
                if dotted(node.func) in ("io.open", "open"):
                    found.append(node)
                else:
                    for target in graph.resolve_call(info, node):
                        if isinstance(target, FuncInfo) and target.module is info.module and target.name != "__init__":
                            found.extend(open_calls(target, depth + 1, seen))
        return found

    for qualname, mode in sites:
        info = model.func(qualname)
        calls = open_calls(info)
        if not calls:
            raise AnalysisError("%s: no open() call found in %s or its helpers" % (rule, qualname))
        what = "%s opens its text file with newline=''" % qualname.replace("cutplace.", "")
        ok = all(any(k.arg == "newline" and isinstance(k.value, ast.Constant) and k.value.value == "" for k in call.keywords)
                 and any(k.arg == "encoding" for k in call.keywords) for call in calls)
        if ok:
            ctx.res.ok(rule, what, True)
        else:
            ctx.res.fail(rule, what, "%s:%s:newline" % (qualname.replace("cutplace.", ""), rule), where_of(model, qualname),
                         "the %s side opens its file without newline='' (or without the format's encoding): line breaks inside cells and the "
                         "declared line delimiter are translated by the text layer" % ("reading" if mode == "r" else "writing"))


def rule_quoting_modes(ctx):
    """O12.5: every quoting mode the loader accepts is one under which each text has a representation.  csv semantics
    (frozen): QUOTE_MINIMAL and QUOTE_ALL quote whatever needs it; QUOTE_NONE never quotes, so with escape = quote (no
    escapechar, the default) the writer raises csv.Error for a cell holding the delimiter, the quote or a line break."""
    import csv

    from ..model import AnalysisError

    model = ctx.model
    ctx.res.minimum("O12.5", 1)
    interp = Interp(model, Chooser())
    table = interp.global_lookup(model.module("cutplace.data"), "QUOTING_TO_CSV_QUOTE_MAP")
    if not isinstance(table, dict) or not table:
        raise AnalysisError("cutplace.data.QUOTING_TO_CSV_QUOTE_MAP does not fold to a table")
    names = {getattr(csv, name): name for name in dir(csv) if name.startswith("QUOTE_")}
    for mode, constant in sorted(table.items()):
        what = "quoting mode %r (csv.%s) can represent every cell" % (mode, names.get(constant, constant))
        if constant in (csv.QUOTE_MINIMAL, csv.QUOTE_ALL):
            ctx.res.ok("O12.5", what, True)
        elif constant == csv.QUOTE_NONE:
            ctx.res.fail("O12.5", what, "data.QUOTING_TO_CSV_QUOTE_MAP:O12.5:%s" % mode, "cutplace/data.py (QUOTING_TO_CSV_QUOTE_MAP)",
                         "the loader accepts quoting %r = csv.QUOTE_NONE: with the default escape character (= quote character, no "
                         "escapechar) a cell holding the item delimiter, the quote character or a line break cannot be written "
                         "(csv.Error), so it does not read back" % (mode,))
        else:
            raise AnalysisError("quoting mode %r = csv.%s is not covered by the round-trip argument" % (mode, names.get(constant, constant)))


from .common import rule_module_state  # noqa: E402

def rule_write_rows_agrees_with_write_row(ctx):
    """O12.6: writing many rows at once emits what writing them one by one emits (sibling agreement in the row writer)."""
    from . import protocol

    protocol.write_rows_agreement_table(ctx, "O12.6")


def rule_field_size_limit(ctx):
    """O12.7: "every table of strings": the csv READER refuses fields longer than csv.field_size_limit() (131072 characters
    unless raised) while the writer writes them - the package must raise the limit before it reads (frozen csv fact)."""
    import ast

    from ..model import dotted, walk_own

    model = ctx.model
    ctx.res.minimum("O12.7", 1)
    raised = []
    for func in model.functions.values():
        if func.module.name.startswith("cutplace.") and func.module.name != "cutplace.gui":
            for node in walk_own(func.node):
                if isinstance(node, ast.Call) and (dotted(node.func) or "").endswith("field_size_limit") and node.args:
                    raised.append(func.qualname)
    for module in model.modules.values():
        if module.name.startswith("cutplace"):
            for node in module.tree.body:
                for call in ast.walk(node) if not isinstance(node, (ast.FunctionDef, ast.ClassDef)) else []:
                    if isinstance(call, ast.Call) and (dotted(call.func) or "").endswith("field_size_limit") and call.args:
                        raised.append(module.name)
    what = "the csv field size limit is raised before delimited data are read"
    if raised:
        ctx.res.ok("O12.7", what + " (%s)" % ", ".join(sorted(set(raised))), True)
    else:
        ctx.res.fail("O12.7", what, "rowio.delimited_rows:O12.7:field-size-limit", where_of(model, "cutplace.rowio.delimited_rows"),
                     "nothing in the package calls csv.field_size_limit(n): a cell of more than 131072 characters is written but cannot "
                     "be read back (csv.Error: field larger than field limit)")


def rule_writers_close_their_files(ctx):
    """O12.8: writing to a path and reading the path back needs the writer's close() to close (flush) the file it opened."""
    from . import protocol

    protocol.row_writer_close_table(ctx, "O12.8")


def rule_rows_end_with_the_declared_line_delimiter(ctx):
    """O14.1 (shared with C14): the writer ends every row with exactly the declared line delimiter - a row ended by CR CR
    or CR LF under "cr" reads back as two rows."""
    from . import protocol

    ctx.res.minimum("O14.1", 1)
    protocol.writer_table(ctx, "O14.1", {"reset", "delimiter"}, "delimited")


RULES = [rule_every_csv_row_is_passed_on, rule_rows_end_with_the_declared_line_delimiter, rule_dialect, rule_accepted_configurations, rule_newline, rule_quoting_modes, rule_write_rows_agrees_with_write_row, rule_field_size_limit, rule_writers_close_their_files, rule_module_state]
