"""
C20 - user-defined field formats and checks are driven by the documented call protocol.
"""
from ..absint import AbsRaise, Chooser, ClassRef, ExtRef, Interp, Obj, exc_name
from ..tablekit import decide, where_of
from . import protocol
from .c03 import rule_template_integrity, validated_table

EXPLANATION = (
    "The protocol of C20 is a set of event traces, decided by interpreting the drivers from source with recording field "
    "formats and checks: the value hook is called only for non-empty (fixed: blank-stripped), allowed-character, in-length "
    "cells (validated table, 1200+ abstract cells; no shipped subclass overrides the template); fields in column order and "
    "never beyond the first rejected cell, checks in declaration order only after all cells passed and none after a veto "
    "(validate_row table); every check reset exactly once before the first row of a run and never called for header rows "
    "or rows beyond the limit (Reader.rows / validio.rows / validio.validate tables over every header/limit ordering, mode "
    "and outcome); end-of-data verdicts once in declaration order, then cleanup of every check, a second close does "
    "nothing (close table); the writer resets once when it is set up and validates before emitting (Writer table). Class "
    "resolution: both name-to-class maps are built from __subclasses__() of the abstract bases when a Cid is constructed "
    "and looked up by the last dotted part plus the FieldFormat / Check suffix, identically for built-ins and plugins."
    " Added in rounds 6 and 7: (O20.5) every Reader / Writer the package itself creates (command line, rows(),"
    " validate(), GUI) is closed on every path."
    " Added in rounds 8 and 9: (O20.6) every module object import_plugins creates escapes into a module-level"
    " container or sys.modules (plugin classes are held only weakly by __subclasses__())."
    " Added in round 10: (O20.row) check_row receives the cells of the row, not the typed values the fields"
    " return."
)
ASSUMPTIONS = ["plugins subclass the abstract bases directly (documented); the plugin's own code is not analysed"]

CID = "cutplace.interface.Cid"


def rule_hook_protocol(ctx):
    ctx.res.minimum("O20.hook", 1)
    validated_table(ctx, "O20.hook")
    rule_template_integrity(ctx)


def rule_row_protocol(ctx):
    ctx.res.minimum("O20.row", 1)
    protocol.validate_row_table(ctx, "O20.row", aspects=())


def rule_run_protocol(ctx):
    ctx.res.minimum("O20.run", 7)
    protocol.reader_rows_table(ctx, "O20.run", {"reset", "window"}, "Reader.rows")
    protocol.reader_rows_table(ctx, "O20.run", {"reset", "window"}, "rows()")
    protocol.reader_rows_table(ctx, "O20.run", {"reset", "window"}, "validate()")
    protocol.close_table(ctx, "O20.run")
    protocol.writer_table(ctx, "O20.run", {"reset"}, "delimited")
    protocol.writer_table(ctx, "O20.run", {"reset"}, "fixed")
    # every operation on a shared CID (incl. readers that never start, readers created up front) resets before use
    # (C20 is stated for repeated runs one after the other; overlapping lifetimes are C08's business)
    protocol.history_table(ctx, "O20.run", 2, overlapping=False)


DOCUMENTED_FIELD_TYPES = ["Choice", "Constant", "DateTime", "Decimal", "Integer", "Pattern", "RegEx", "Text"]
DOCUMENTED_CHECK_TYPES = ["DistinctCount", "IsUnique"]


def rule_builtin_types_are_registered(ctx, rule="O20.2"):
    """Every documented field type and check type is a class deriving (at any depth - the map table O20.2 decides that
    subclasses of subclasses are registered) from its abstract base."""
    model = ctx.model
    for base_name, suffix, documented in (("cutplace.fields.AbstractFieldFormat", "FieldFormat", DOCUMENTED_FIELD_TYPES),
                                          ("cutplace.checks.AbstractCheck", "Check", DOCUMENTED_CHECK_TYPES)):
        base = model.cls(base_name)
        direct = {cls.name for cls in model.subclasses(base) if cls.module.name.startswith("cutplace.")}
        for type_name in documented:
            what = "type %s resolves to a registered class" % type_name
            class_name = type_name + suffix
            if class_name in direct:
                ctx.res.ok(rule, what, True)
                continue
            anywhere = [cls for cls in model.subclasses(base) if cls.name == class_name]
            if anywhere:
                ctx.res.fail(rule, what, "%s:%s:not-direct:%s" % (base_name.replace("cutplace.", ""), rule, class_name),
                             "%s:%d (%s)" % (anywhere[0].module.relpath, anywhere[0].node.lineno, class_name),
                             "%s does not derive directly from %s: __subclasses__() does not list it, so every CID that declares a %s "
                             "%s is rejected with 'cannot find class'" % (class_name, base.name, type_name, "field" if suffix == "FieldFormat" else "check"))
            else:
                ctx.res.fail(rule, what, "%s:%s:missing:%s" % (base_name.replace("cutplace.", ""), rule, class_name),
                             base.module.relpath, "no class %s: the documented type %s does not exist" % (class_name, type_name))


def rule_class_resolution(ctx):
    model = ctx.model
    ctx.res.minimum("O20.2", 4)

    # (a) the maps hold EVERY subclass of the abstract base, keyed by the plain class name - also a user's class that
    # derives from a built-in one (a subclass of a subclass).  Interpreted on a three-level hierarchy handed out by a
    # stubbed __subclasses__ (repository classes serve as stand-ins: base -> [first, second], first -> [third], third -> [fourth]).
    def map_cell(ch):
        base = ch.choose("base", ["cutplace.fields.AbstractFieldFormat", "cutplace.checks.AbstractCheck"])
        suffix = "FieldFormat" if "fields" in base else "Check"
        stand_ins = model.subclasses(model.cls(base), direct=True)
        if len(stand_ins) < 2:
            return None
        first, second = stand_ins[0], stand_ins[1]
        third = model.cls("cutplace.errors.Location")  # any third class: only its name is looked at
        fourth = model.cls("cutplace.ranges.Range")  # a third level (round 11: a scan of two levels passed the two-level table)
        hierarchy = {base: [first, second], first.qualname: [third], second.qualname: [], third.qualname: [fourth], fourth.qualname: []}
        asked = []
        interp = Interp(model, ch)

        from ..absint import stub

        def subclasses_method(of):
            @stub
            def method(interp_, args, kwargs):
                asked.append(of)
                return [ClassRef(cls) for cls in hierarchy[of]]

            return method

        original_getattr = interp.getattr

        def patched_getattr(value, name, node=None):
            if isinstance(value, ClassRef) and name == "__subclasses__" and value.info.qualname in hierarchy:
                return subclasses_method(value.info.qualname)
            return original_getattr(value, name, node)

        interp.getattr = patched_getattr
        result = interp.call_function(model.func(CID + "._create_name_to_class_map"), [ClassRef(model.cls(base))], {}, None)
        names = sorted(result) if isinstance(result, dict) else result
        expected = sorted([first.name, second.name, third.name, fourth.name])
        targets_ok = isinstance(result, dict) and all(isinstance(v, ClassRef) and v.info.name == k for k, v in result.items())
        return ("map of " + suffix, (names, targets_ok, bool(asked)), (expected, True, True))

    decide(ctx, "O20.2", "name-to-class map holds subclasses at every depth", CID + "._create_name_to_class_map", map_cell, min_cells=2)
    rule_builtin_types_are_registered(ctx, "O20.2")

    # (b) look-up: last dotted part + suffix; unknown -> InterfaceError
    def lookup_cell(ch):
        qualifier = ch.choose("type", ["Color", "plugins.Color", "a.b.Color", "Text", "Unknown"])
        mapping = {"ColorFieldFormat": "PLUGIN", "TextFieldFormat": "BUILTIN"}
        interp = Interp(model, ch)
        cid = Obj(model.cls(CID), {"_location": None}, label="cid")
        try:
            result = interp.call_function(model.func(CID + "._create_class"), [cid, mapping, qualifier, "FieldFormat", "field"], {}, None)
        except AbsRaise as raised:
            result = "raise " + exc_name(raised.value)
        expected = {"Color": "PLUGIN", "plugins.Color": "PLUGIN", "a.b.Color": "PLUGIN", "Text": "BUILTIN", "Unknown": "raise InterfaceError"}[qualifier]
        return (qualifier, result, expected)

    decide(ctx, "O20.2", "class look-up (last dotted part + suffix)", CID + "._create_class", lookup_cell, min_cells=5)

    # (c) Cid.__init__ builds both maps from the two abstract bases (interpreted: which base reaches which attribute)
    from ..absint import stub

    built = {}

    @stub
    def map_stub(interp_, args, kwargs):
        base = args[0]
        marker = "map of " + (base.info.qualname if isinstance(base, ClassRef) else repr(base))
        built[marker] = True
        return {"marker": marker}

    interp = Interp(model, Chooser(), stubs={CID + "._create_name_to_class_map": map_stub},
                    externals={"traceback.extract_stack": lambda i, a, k: [("caller.py", 1, "f", "x")], "os.path.basename": lambda i, a, k: "x"})
    cid = interp.instantiate(ClassRef(model.cls(CID)), [], {})
    check_map = cid.attrs.get("_check_name_to_class_map")
    field_map = cid.attrs.get("_field_format_name_to_class_map")
    ok = isinstance(check_map, dict) and check_map.get("marker") == "map of cutplace.checks.AbstractCheck" \
        and isinstance(field_map, dict) and field_map.get("marker") == "map of cutplace.fields.AbstractFieldFormat"
    if ok:
        ctx.res.ok("O20.2", "Cid.__init__ builds the check and field-format maps from the two abstract bases", True)
    else:
        ctx.res.fail("O20.2", "maps built at construction", "interface.Cid.__init__:O20.2:maps", where_of(model, CID + ".__init__"),
                     "class maps after Cid(): checks %r, field formats %r" % (check_map, field_map))
    # (d) the maps are what add_field_format_row / add_check_row look classes up in
    lookups = {}

    @stub
    def create_class_stub(interp_, args, kwargs):
        lookups[args[4]] = args[1]
        return "CLASS"

    interp = Interp(model, Chooser(), stubs={CID + "._create_class": create_class_stub})
    cid = Obj(model.cls(CID), {"_field_format_name_to_class_map": {"marker": "fields"}, "_check_name_to_class_map": {"marker": "checks"}})
    interp.call_function(model.func(CID + "._create_field_format_class"), [cid, "Text"], {}, None)
    interp.call_function(model.func(CID + "._create_check_class"), [cid, "IsUnique"], {}, None)
    if lookups.get("field", {}).get("marker") == "fields" and lookups.get("check", {}).get("marker") == "checks":
        ctx.res.ok("O20.2", "field types are looked up in the field-format map, check types in the check map", True)
    else:
        ctx.res.fail("O20.2", "look-up uses the matching map", "interface.Cid._create_field_format_class:O20.2:map", where_of(model, CID + "._create_class"),
                     "class look-ups use %r" % (lookups,))


from .common import rule_module_state, rule_undefined_attributes  # noqa: E402

def rule_plugin_folder_is_not_a_pattern(ctx):
    """O20.4: "supplied by ... a plugin folder": the folder name is data, not a glob pattern - every pattern handed to
    glob.glob in import_plugins is built from glob.escape(folder)."""
    import ast

    from ..model import dotted, walk_own

    model = ctx.model
    info = model.func("cutplace.interface.import_plugins")
    ctx.res.minimum("O20.4", 1)
    folder = info.node.args.args[0].arg
    definitions = {}
    for node in walk_own(info.node):
        if isinstance(node, ast.Assign) and len(node.targets) == 1 and isinstance(node.targets[0], ast.Name):
            definitions[node.targets[0].id] = node.value
    for node in walk_own(info.node):
        if isinstance(node, ast.Call) and dotted(node.func) in ("glob.glob", "glob.iglob") and node.args:
            pattern = node.args[0]
            while isinstance(pattern, ast.Name) and pattern.id in definitions:
                pattern = definitions[pattern.id]
            raw_use = any(isinstance(n, ast.Name) and n.id == folder for n in ast.walk(pattern))
            escaped = [call for call in ast.walk(pattern) if isinstance(call, ast.Call) and dotted(call.func) == "glob.escape"]
            raw_outside_escape = raw_use and not any(any(isinstance(n, ast.Name) and n.id == folder for n in ast.walk(call)) for call in escaped) \
                or any(isinstance(n, ast.Name) and n.id == folder and not any(n in ast.walk(call) for call in escaped) for n in ast.walk(pattern))
            what = "import_plugins hands glob.glob a pattern with the folder name escaped"
            if raw_outside_escape:
                ctx.res.fail("O20.4", what, "interface.import_plugins:O20.4:glob", where_of(model, info.qualname),
                             "the plugin folder %r becomes part of a glob pattern unescaped: a folder whose name holds [, ], * or ? "
                             "yields no plugins (and no error)" % folder)
            else:
                ctx.res.ok("O20.4", what, True)


def rule_plugin_modules_are_retained(ctx):
    """
    O20.6: "field formats and checks supplied by ... a plugin folder resolve by class name exactly like built-ins".  The
    classes of a plugin are found through ``__subclasses__()``, which holds them weakly; the only strong references are
    inside the module object that import_plugins() executed.  If that module object is dropped when the function returns
    (it is not put into sys.modules on purpose: a plugin file may be called csv.py), the classes sit in an unreferenced
    cycle and disappear with the next garbage collection - from then on the type names no longer resolve.  Rule: every
    module object created in import_plugins (module_from_spec / import_module / exec_module receiver) escapes into a
    module-level container of the package or into sys.modules.
    """
    import ast

    from ..model import dotted, walk_own

    model = ctx.model
    ctx.res.minimum("O20.6", 1)
    info = model.func("cutplace.interface.import_plugins")
    created = {}
    for node in walk_own(info.node):
        if isinstance(node, ast.Assign) and isinstance(node.value, ast.Call) and len(node.targets) == 1 and isinstance(node.targets[0], ast.Name):
            callee = dotted(node.value.func) or ""
            if callee.split(".")[-1] in ("module_from_spec", "import_module", "load_module", "__import__"):
                created[node.targets[0].id] = node
    if not created:
        from ..model import AnalysisError

        raise AnalysisError("O20.6: import_plugins creates no module object the rule recognises")
    module_level = set(info.module.assigns)
    for name, node in sorted(created.items()):
        retained = None
        for other in walk_own(info.node):
            if isinstance(other, ast.Call) and isinstance(other.func, ast.Attribute) and other.func.attr in ("append", "add", "setdefault", "__setitem__") \
                    and any(isinstance(arg, ast.Name) and arg.id == name for arg in other.args):
                holder = dotted(other.func.value) or ""
                if holder.split(".")[0] in module_level or holder == "sys.modules":
                    retained = holder
            if isinstance(other, ast.Assign) and isinstance(other.value, ast.Name) and other.value.id == name:
                for target in other.targets:
                    holder = dotted(target.value) if isinstance(target, ast.Subscript) else None
                    if holder and (holder.split(".")[0] in module_level or holder == "sys.modules"):
                        retained = holder
        what = "import_plugins keeps the module object %s alive after it returns" % name
        if retained:
            ctx.res.ok("O20.6", what + " (in %s)" % retained, True)
        else:
            ctx.res.fail("O20.6", what, "interface.import_plugins:O20.6:%s not retained" % name,
                         "%s:%d (interface.import_plugins)" % (info.module.relpath, node.lineno),
                         "the module object %s is referenced by nothing once import_plugins returns: its classes are only weakly held by "
                         "__subclasses__() and vanish with the next garbage collection, after which the plugin's type names no longer resolve" % name)


def rule_every_run_is_closed(ctx):
    """O20.5: "asked for its end-of-data verdict once ... when the run is closed, after which every check is cleaned up":
    every Reader / Writer the package itself creates (command line, rows(), validate(), GUI) is closed on every path."""
    from . import protocol

    protocol.rule_validators_are_closed(ctx, "O20.5")


RULES = [rule_hook_protocol, rule_row_protocol, rule_run_protocol, rule_class_resolution, rule_plugin_folder_is_not_a_pattern, rule_plugin_modules_are_retained, rule_every_run_is_closed, rule_undefined_attributes, rule_module_state]
