"""
C07 - header rows are skipped; the validation limit bounds validation, not data.
"""
from . import protocol

EXPLANATION = (
    "Static decision of C07: Reader.rows, validio.rows and validio.validate are interpreted from source with the header "
    "count h and the limit n as order symbols (every ordering of h and n against the raw row numbers 1..3, plus 'no "
    "limit'); raw row k must be neither validated nor returned iff k <= h, validated iff h < k <= n, and returned "
    "unchanged without validation iff k > n (rows API), while validate() stops after n returned rows and never starts "
    "reading for n = 0. The command line's --until mapping (-1 -> no limit, >= 0 -> itself, < -1 -> usage error) is "
    "decided over region representatives and must reach the Reader's validate_until argument."
)
ASSUMPTIONS = ["argparse converts --until with int() and parser.error exits with status 2"]


def rule_window(ctx):
    ctx.res.minimum("O7.1", 4)
    protocol.reader_rows_table(ctx, "O7.1", {"window"}, "Reader.rows")
    protocol.reader_rows_table(ctx, "O7.1", {"window"}, "rows()")
    protocol.reader_rows_table(ctx, "O7.1", {"window"}, "validate()")
    protocol.reader_rows_table(ctx, "O7.1", {"window"}, "validate_rows")


def rule_limit_bounds_every_rejection(ctx):
    """
    O7.5: "with a validation limit N a rejection is reported if and only if the offending row's number is at most N ...
    N = 0 validates nothing": when a limit is set, a run in which no row up to N is rejected must not end with a rejection
    that has no offending row - the end-of-data verdict of a check on the part of the data that was looked at.
    """
    from ..tablekit import decide_kinds

    ctx.res.minimum("O7.5", 1)

    numeric = ["order"]

    def cell(ch):
        run = protocol.reader_rows_run(ctx.model, ch, "validate()", 2, numeric[0])
        interp = run["interp"]
        key = protocol._rows_key(run)
        row_rejected = any(event[0] == "validate_row" and event[-1] == "DataError" for event in interp.events)
        fault = any(event[0] == "container-fault" for event in interp.events)
        end_failed = any(event[0] == "check_at_end" and event[-1] == protocol.CHECK_BAD for event in interp.events)
        outcome = run["outcome"]
        if run["limit"] is not None and not row_rejected and not fault and end_failed and outcome[0] == "raise":
            return (key, "a run with a validation limit is rejected by an end-of-data check although no row up to the limit is offending",
                    "validate(limit) raised %s" % protocol.exc_name(outcome[1]))
        return (key, None, None)

    from ..model import AnalysisError

    try:
        decide_kinds(ctx, "O7.5", "validate(limit): rejections need an offending row", "cutplace.validio.validate", cell, min_cells=40)
    except AnalysisError as error:
        if "on order symbol" not in str(error) and "range over abstract bounds" not in str(error):
            raise
        numeric[0] = "regions"  # the code computes with the header count or the limit
        decide_kinds(ctx, "O7.5", "validate(limit): rejections need an offending row", "cutplace.validio.validate", cell, min_cells=40)


def rule_until(ctx):
    """O7.3: the command line's --until reaches the API limit unchanged (-1 = no limit, 0 = nothing validated)."""
    from .c18 import rule_until as until_table

    until_table(ctx)
    ctx.res.rule_instances["O7.3"] = ctx.res.rule_instances.get("O18.4", 0)
    ctx.res.minimum("O7.3", 1)


def rule_physical_rows(ctx):
    """O7.4: 'row number' means the physical row: the ODS reader returns empty rows too (C15's table), so header rows and
    the limit count the rows a user sees in the sheet."""
    from .c15 import rule_empty_rows

    rule_empty_rows(ctx, "O7.4")
    ctx.res.minimum("O7.4", 1)


def rule_blank_lines_are_rows(ctx):
    """O7.5 (round 11, C12's table): the delimited reader hands on the row without items that stands for a blank line, so
    row numbers - in errors, for the header and for the validation limit - are those of the data."""
    from .c12 import rule_every_csv_row_is_passed_on

    rule_every_csv_row_is_passed_on(ctx, "O7.5")


from .common import rule_module_state  # noqa: E402

RULES = [rule_blank_lines_are_rows, rule_window, rule_limit_bounds_every_rejection, rule_until, rule_physical_rows, rule_module_state]
