"""
Rules shared by several properties.
"""
import json
import os

from ..model import AnalysisError, Model

VERIF = os.path.dirname(os.path.dirname(os.path.dirname(os.path.abspath(__file__))))

FIXTURE_KINDS = {
    "CONSTANT_TABLE": "constant", "_REGISTRY": "import-time", "_STATISTICS": "write-only", "_PURE_MEMO": "memo",
    "_BAD_KEY_MEMO": "memo-key-incomplete", "_FILE_MEMO": "memo-of-outside-data", "_BUFFER": "shared", "_counter": "shared",
    "Collector.NAMES": "constant", "Collector._seen": "shared",
    "Range._calls": "write-only", "Range._last_index": "shared", "Range._parsed": "lazy",
}


def anchor_files(property_id):
    with open(os.path.join(VERIF, "properties.jsonl"), "r", encoding="utf-8") as properties_file:
        for line in properties_file:
            if line.strip():
                entry = json.loads(line)
                if entry["id"] == property_id:
                    return list(entry.get("anchors", {}).get("files", []))
    raise AnalysisError("property %s not found in properties.jsonl" % property_id)


def rule_module_state(ctx):
    """
    X-STATE: the modules this property is anchored in keep no hidden run-time state - neither at module or class level
    nor in the validator objects without a life cycle (ranges, field formats, SQL dialects): what a call answers depends on
    its arguments and on the objects it is given (CID, reader, writer), not on earlier calls in the process.
    Decided by cpsa/xstate.py over every module-level container of the anchor files; the classifier itself is checked on
    a fixture with one cell of every kind on every run.
    """
    from .. import xstate

    fixture = Model(os.path.join(VERIF, "cpsa", "fixtures", "xstate_repo"))
    kinds = {cell.name: cell.kind for cell in xstate.classify(fixture)}
    if kinds != FIXTURE_KINDS:
        raise AnalysisError("X-STATE classifier disagrees with its fixture: %r" % sorted(set(kinds.items()) ^ set(FIXTURE_KINDS.items())))
    files = anchor_files(ctx.res.property_id)
    cells = [cell for cell in xstate.classify(ctx.model) if cell.module.relpath in files]
    ctx.res.minimum("X-STATE", 1)
    summary = {}
    for cell in cells:
        summary[cell.kind] = summary.get(cell.kind, 0) + 1
    bad = [cell for cell in cells if cell.kind in xstate.VIOLATING]
    what = "module-level containers of %s hold no run-time state (%d containers: %s)" % (
        ", ".join(files), len(cells), ", ".join("%d %s" % (count, kind) for kind, count in sorted(summary.items())) or "none")
    if not bad:
        ctx.res.ok("X-STATE", what, True, {"containers": sorted("%s:%s=%s" % (cell.module.relpath, cell.name, cell.kind) for cell in cells)})
    for cell in bad:
        writer, node, how = cell.writers[0]
        ctx.res.fail("X-STATE", what, "%s.%s:X-STATE:%s" % (cell.module.name.replace("cutplace.", ""), cell.name, cell.kind),
                     "%s:%d (%s, written in %s)" % (cell.module.relpath, node.lineno, cell.name, writer.qualname.replace("cutplace.", "")),
                     "%s %s is run-time state (%s): %s" % ("attribute" if "." in cell.name else "module-level", cell.name, cell.kind, cell.reason),
                     {"writers": sorted({f.qualname for f, _, _ in cell.writers}), "readers": sorted({f.qualname for f, _ in cell.readers})})


def rule_undefined_attributes(ctx):
    """
    X-ATTR: no function of the package reads an attribute that no class of the receiver's hierarchy defines (a misspelt
    name is an AttributeError - not a cutplace error - for whoever calls the function first).  Receivers: ``self``, locals
    with an inferred class, parameters whose docstring states their class.  Decided by cpsa/xattr.py.
    """
    from ..escape import CallGraph
    from .. import xattr

    findings, judged = xattr.undefined_attribute_reads(ctx.model, CallGraph(ctx.model))
    ctx.res.minimum("X-ATTR", 1)
    if judged < 400:
        raise AnalysisError("X-ATTR judged only %d attribute reads (expected several hundred)" % judged)
    if not findings:
        ctx.res.ok("X-ATTR", "all %d attribute reads on receivers of known class name attributes their class hierarchy defines" % judged, True)
    for func, node, cls, attribute in findings:
        ctx.res.fail("X-ATTR", "attribute %s of %s exists" % (attribute, cls.name),
                     "%s:X-ATTR:%s.%s" % (func.qualname.replace("cutplace.", ""), cls.name, attribute),
                     "%s:%d (%s)" % (func.module.relpath, node.lineno, func.qualname.replace("cutplace.", "")),
                     "%s reads %s.%s, but neither %s nor its bases or subclasses define '%s': the first call ends in AttributeError"
                     % (func.qualname.replace("cutplace.", ""), ast_text(node.value), attribute, cls.name, attribute))


def ast_text(node):
    import ast

    return ast.unparse(node)
