"""
X-NONE - a None that reaches ``assert <parameter> is not None``.

The triage of asserts (tables/asserts.py) exempts ``assert x is not None``: such an assert restates the calling
convention.  That is only true while no caller hands over a value that may be None.  The values that may be None are
visible in the code: an attribute a constructor fills from a parameter whose default is None (``CutplaceError.location``,
``see_also_location``, ``cause`` ...), a property returning such an attribute, a parameter of the caller whose own default
is None, and the literal.  For every resolved call site in the functions reachable from the API whose callee asserts the
parameter the rule requires that the argument is none of these, or that a guard on the very same expression dominates
the call (``x if x is not None else y``, ``if x is not None:``, an earlier ``assert x is not None``).
"""
import ast

from .model import FuncInfo, walk_own


def _params(func):
    arguments = func.node.args
    names = [a.arg for a in arguments.posonlyargs + arguments.args]
    defaults = [None] * (len(names) - len(arguments.defaults)) + list(arguments.defaults)
    result = list(zip(names, defaults))
    for argument, default in zip(arguments.kwonlyargs, arguments.kw_defaults):
        result.append((argument.arg, default))
    return result


def _is_none(node):
    return isinstance(node, ast.Constant) and node.value is None


def required_parameters(func):
    """Parameters the function asserts to be not None (statements of its own body, at any depth before use is not
    checked: an assert anywhere in the body counts)."""
    names = {name for name, _ in _params(func)}
    required = {}
    for node in walk_own(func.node):
        if isinstance(node, ast.Assert):
            test = node.test
            if isinstance(test, ast.Compare) and len(test.ops) == 1 and isinstance(test.ops[0], ast.IsNot) and _is_none(test.comparators[0]) \
                    and isinstance(test.left, ast.Name) and test.left.id in names:
                required.setdefault(test.left.id, node)
    return required


def nullable_attributes(model):
    """class qualname -> {attribute or property name: reason}."""
    result = {}
    for cls in model.classes.values():
        own = {}
        init = cls.methods.get("__init__")
        if init is not None:
            none_defaults = {name for name, default in _params(init) if default is not None and _is_none(default)}
            for node in walk_own(init.node):
                if not isinstance(node, ast.Assign):
                    continue
                value = node.value
                if isinstance(value, ast.Call) and isinstance(value.func, ast.Attribute) and value.func.attr in ("copy", "deepcopy") \
                        and isinstance(value.func.value, ast.Name) and value.func.value.id == "copy" and len(value.args) == 1:
                    value = value.args[0]  # copy.copy(None) is None
                if isinstance(value, ast.Name) and value.id in none_defaults:
                    for target in node.targets:
                        if isinstance(target, ast.Attribute) and isinstance(target.value, ast.Name) and target.value.id == "self":
                            own[target.attr] = "%s.__init__ fills it from the parameter %s (default None)" % (cls.name, value.id)
        result[cls.qualname] = own
    # properties that hand such an attribute out
    for cls in model.classes.values():
        for name, (getter, _setter) in cls.properties.items():
            if getter is None:
                continue
            returns = [n for n in walk_own(getter.node) if isinstance(n, ast.Return) and n.value is not None]
            if len(returns) == 1 and isinstance(returns[0].value, ast.Attribute) and isinstance(returns[0].value.value, ast.Name) \
                    and returns[0].value.value.id == "self":
                attribute = returns[0].value.attr
                for klass in model.mro(cls):
                    reason = result.get(klass.qualname, {}).get(attribute)
                    if reason is not None:
                        result[cls.qualname][name] = "property returning self.%s; %s" % (attribute, reason)
                        break
    return result


class NoneFlow:
    def __init__(self, model, graph):
        self.model = model
        self.graph = graph
        self.nullable = nullable_attributes(model)

    def _attribute_reason(self, cls, attr):
        for klass in list(self.model.mro(cls)):
            reason = self.nullable.get(klass.qualname, {}).get(attr)
            if reason is not None:
                return reason
        return None

    def _handler_classes(self, func, name, position):
        """Classes of ``except X as name`` for the innermost handler that binds the name around the position."""
        found = []
        for node in walk_own(func.node):
            if isinstance(node, ast.ExceptHandler) and node.name == name and node.type is not None \
                    and node.lineno <= position.lineno <= (node.end_lineno or node.lineno):
                types = node.type.elts if isinstance(node.type, ast.Tuple) else [node.type]
                for type_node in types:
                    from .model import ClassInfo, dotted

                    text = dotted(type_node)
                    resolved = self.model.resolve_dotted(func.module, text) if text else None
                    if isinstance(resolved, ClassInfo):
                        found.append(resolved)
        return found

    def why_nullable(self, func, expr, position, depth=0):
        """A reason if the expression may be None by construction, else None."""
        if depth > 3:
            return None
        if _is_none(expr):
            return "the literal None"
        if isinstance(expr, ast.IfExp):
            test = expr.test
            guarded = None
            if isinstance(test, ast.Compare) and len(test.ops) == 1 and _is_none(test.comparators[0]):
                guarded = (ast.dump(test.left), type(test.ops[0]))
            body_reason = self.why_nullable(func, expr.body, position, depth + 1)
            else_reason = self.why_nullable(func, expr.orelse, position, depth + 1)
            if guarded is not None and guarded[1] is ast.IsNot and ast.dump(expr.body) == guarded[0]:
                body_reason = None
            if guarded is not None and guarded[1] is ast.Is and ast.dump(expr.orelse) == guarded[0]:
                else_reason = None
            return body_reason or else_reason
        if isinstance(expr, ast.BoolOp) and isinstance(expr.op, ast.Or):
            return self.why_nullable(func, expr.values[-1], position, depth + 1)
        if isinstance(expr, ast.Attribute):
            classes = []
            if isinstance(expr.value, ast.Name):
                classes = self._handler_classes(func, expr.value.id, position)
            if not classes:
                classes = self.graph.infer_classes(func, expr.value, 0)
            for cls in classes:
                reason = self._attribute_reason(cls, expr.attr)
                if reason is not None:
                    return "%s of a %s: %s" % (expr.attr, cls.name, reason)
            return None
        if isinstance(expr, ast.Name):
            for name, default in _params(func):
                if name == expr.id:
                    if default is not None and _is_none(default) and not self._rebound(func, name):
                        return "parameter %s of %s (default None)" % (name, func.qualname.replace("cutplace.", ""))
                    return None
            values = []
            for node in walk_own(func.node):
                if isinstance(node, ast.Assign) and any(isinstance(t, ast.Name) and t.id == expr.id for t in node.targets):
                    values.append(node.value)
                elif isinstance(node, (ast.AugAssign, ast.For, ast.comprehension)) and any(
                        isinstance(n, ast.Name) and n.id == expr.id for n in ast.walk(node.target)):
                    return None
                elif isinstance(node, ast.With) and any(isinstance(item.optional_vars, ast.Name) and item.optional_vars.id == expr.id
                                                        for item in node.items):
                    return None
                elif isinstance(node, ast.ExceptHandler) and node.name == expr.id:
                    return None
            if len(values) == 1:
                return self.why_nullable(func, values[0], position, depth + 1)
            return None
        return None

    def _rebound(self, func, name):
        for node in walk_own(func.node):
            if isinstance(node, ast.Assign) and any(isinstance(t, ast.Name) and t.id == name for t in node.targets):
                return True
        return False

    def _guarded(self, func, expr, call):
        """Does a test on the same expression dominate the call?  (if <e> is not None / if <e>: ... around the call, or an
        earlier assert / early exit ``if <e> is None: return|raise`` in a block that encloses the call.)"""
        wanted = ast.dump(expr)

        def positive(test):
            if isinstance(test, ast.Compare) and len(test.ops) == 1 and isinstance(test.ops[0], ast.IsNot) and _is_none(test.comparators[0]):
                return ast.dump(test.left) == wanted
            if isinstance(test, ast.BoolOp) and isinstance(test.op, ast.And):
                return any(positive(value) for value in test.values)
            return ast.dump(test) == wanted

        def negative(test):
            if isinstance(test, ast.Compare) and len(test.ops) == 1 and isinstance(test.ops[0], ast.Is) and _is_none(test.comparators[0]):
                return ast.dump(test.left) == wanted
            if isinstance(test, ast.UnaryOp) and isinstance(test.op, ast.Not):
                return ast.dump(test.operand) == wanted
            return False

        def contains(node):
            return any(inner is call for inner in ast.walk(node))

        def search(statements):
            for index, statement in enumerate(statements):
                if not contains(statement):
                    if isinstance(statement, ast.Assert) and positive(statement.test):
                        return True
                    if isinstance(statement, ast.If) and negative(statement.test) and statement.body \
                            and isinstance(statement.body[-1], (ast.Return, ast.Raise, ast.Continue, ast.Break)):
                        return True
                    continue
                if isinstance(statement, ast.If):
                    if contains(statement.test):
                        return False
                    if any(contains(s) for s in statement.body):
                        return positive(statement.test) or search(statement.body)
                    return negative(statement.test) or search(statement.orelse)
                for field in ("body", "orelse", "finalbody"):
                    block = getattr(statement, field, None)
                    if isinstance(block, list) and any(isinstance(s, ast.stmt) and contains(s) for s in block):
                        return search(block)
                for handler in getattr(statement, "handlers", []):
                    if contains(handler):
                        return search(handler.body)
                return False
            return False

        return search(func.node.body)

    def findings(self, reachable):
        """(caller FuncInfo, call node, callee FuncInfo, parameter, argument text, reason), plus the number of judged arguments."""
        found = []
        judged = 0
        required_cache = {}
        for qualname in sorted(reachable):
            func = self.model.functions.get(qualname)
            if func is None or func.module.name == self.model.PACKAGE + ".gui":
                continue
            for call in walk_own(func.node):
                if not isinstance(call, ast.Call):
                    continue
                for target in self.graph.resolve_call(func, call):
                    if not isinstance(target, FuncInfo):
                        continue
                    if target.qualname not in required_cache:
                        required_cache[target.qualname] = required_parameters(target)
                    required = required_cache[target.qualname]
                    if not required:
                        continue
                    names = [name for name, _ in _params(target)]
                    bound = target.cls is not None and not target.is_static and names and names[0] in ("self", "cls") \
                        and not (isinstance(call.func, ast.Attribute) and isinstance(call.func.value, ast.Name) and call.func.value.id in func.module.classes
                                 and target.name != "__init__")
                    positional = names[1:] if bound else names
                    pairs = list(zip(positional, call.args)) + [(keyword.arg, keyword.value) for keyword in call.keywords if keyword.arg]
                    if any(isinstance(argument, ast.Starred) for argument in call.args):
                        continue
                    for parameter, argument in pairs:
                        if parameter not in required:
                            continue
                        judged += 1
                        reason = self.why_nullable(func, argument, call)
                        if reason is None:
                            continue
                        subject = argument
                        if self._guarded(func, subject, call):
                            continue
                        found.append((func, call, target, parameter, ast.unparse(argument), reason))
        return found, judged
