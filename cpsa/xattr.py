"""
X-ATTR - attributes that no class defines.

For every attribute read ``x.name`` in the package whose receiver has a known repository class (``self`` in a method, a
parameter or local whose class follows from a constructor call, a ``with`` statement, a return type or the naming
conventions of tables/raisers.py) the name must be defined somewhere in that class's hierarchy - as a method, property,
class-level assignment or ``self.name = ...`` in any method of the class, its bases or its subclasses.  A name nobody
defines is an AttributeError waiting for the first call (``check_to_add.descrption``).

Classes with a base outside the repository (other than ``object`` and the exception classes, whose attributes are listed
here) are skipped: their attributes are not visible to the analysis.
"""
import ast

from .model import ClassInfo, walk_own

OBJECT_ATTRIBUTES = {"__class__", "__dict__", "__doc__", "__module__", "__name__", "__init__", "__new__", "__str__", "__repr__",
                     "__eq__", "__hash__", "__subclasses__", "__qualname__"}
EXCEPTION_ATTRIBUTES = {"args", "with_traceback", "__traceback__", "__cause__", "__context__", "errno", "strerror", "filename"}
KNOWN_EXTERNAL_BASES = {"object", "Exception", "BaseException", "ValueError", "EnvironmentError", "OSError", "builtins.object",
                        "builtins.Exception"}


def _defined_names(model, cls, cache):
    if cls.qualname in cache:
        return cache[cls.qualname]
    family = list(model.mro(cls)) + list(model.subclasses(cls))
    names = set(OBJECT_ATTRIBUTES)
    opaque = False
    for member in family:
        for base in member.bases:
            if not isinstance(base, ClassInfo):
                if str(base).split(".")[-1] in ("Exception", "BaseException", "ValueError", "EnvironmentError", "OSError"):
                    names |= EXCEPTION_ATTRIBUTES
                elif str(base) not in KNOWN_EXTERNAL_BASES:
                    opaque = True
        names.update(member.methods)
        names.update(member.properties)
        names.update(member.class_assigns)
        for method in member.methods.values():
            for node in ast.walk(method.node):
                if isinstance(node, ast.Attribute) and isinstance(node.ctx, (ast.Store, ast.Del)) and isinstance(node.value, ast.Name) \
                        and node.value.id in ("self", "cls"):
                    names.add(node.attr)
                elif isinstance(node, ast.Call) and isinstance(node.func, ast.Name) and node.func.id == "setattr" and len(node.args) >= 2 \
                        and isinstance(node.args[1], ast.Constant):
                    names.add(node.args[1].value)
        for (getter, setter) in member.properties.values():
            pass
    cache[cls.qualname] = None if opaque else names
    return cache[cls.qualname]


def _assigned_locally(func, name):
    scope = func
    while scope is not None:
        for node in walk_own(scope.node):
            if isinstance(node, ast.Name) and node.id == name and isinstance(node.ctx, ast.Store):
                return True
            if isinstance(node, (ast.With, ast.AsyncWith)):
                for item in node.items:
                    if isinstance(item.optional_vars, ast.Name) and item.optional_vars.id == name:
                        return True
        scope = scope.parent
    return False


def _documented_parameter_class(model, func, name):
    import re

    text = ast.get_docstring(func.node) or ""
    match = re.search(r":param\s+([\w.]+)\s+%s\s*:" % re.escape(name), text)
    if not match:
        return None
    return model.classes.get(match.group(1))


def undefined_attribute_reads(model, graph):
    """(function, node, class, attribute) for reads of attributes no class of the receiver's hierarchy defines; also the
    number of reads that could be judged."""
    findings = []
    judged = 0
    cache = {}
    for func in model.functions.values():
        if not func.module.name.startswith(model.PACKAGE) or func.module.name == model.PACKAGE + ".gui":
            continue
        for node in walk_own(func.node):
            if not (isinstance(node, ast.Attribute) and isinstance(node.ctx, ast.Load)):
                continue
            receiver = node.value
            if not isinstance(receiver, ast.Name):
                continue
            if receiver.id in func.module.imports or receiver.id in func.module.classes or receiver.id in func.module.functions:
                continue  # a module, class or function, not an instance
            classes = graph.infer_classes(func, receiver, 0)
            if not classes:
                continue
            if receiver.id != "self" and not _assigned_locally(func, receiver.id):
                # a parameter: the naming conventions are too coarse here ("reader" is a cutplace Reader in one function and
                # a csv reader in another); only a type stated in the docstring (:param package.Class name:) counts
                documented = _documented_parameter_class(model, func, receiver.id)
                if documented is None:
                    continue
                classes = [documented]
            verdicts = []
            for cls in classes:
                names = _defined_names(model, cls, cache)
                if names is None:
                    verdicts = []
                    break
                verdicts.append(node.attr in names)
            if not verdicts:
                continue
            judged += 1
            if not any(verdicts):
                findings.append((func, node, classes[0], node.attr))
    return findings, judged
