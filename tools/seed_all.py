#!/venv/bin/python
"""Re-evaluates every stored seeded change in /verif/seeded against the current /repo HEAD and all checks; writes seeded/RESULTS.md."""
import json
import os
import subprocess
import sys
from concurrent.futures import ThreadPoolExecutor

VERIF = os.path.dirname(os.path.dirname(os.path.abspath(__file__)))
SEEDED = os.path.join(VERIF, "seeded")


def evaluate(name):
    process = subprocess.run([sys.executable, os.path.join(VERIF, "tools", "seed_eval.py"), os.path.join(SEEDED, name), "--keep", name],
                             capture_output=True, text=True, cwd=VERIF)
    return name, process.returncode, process.stdout + process.stderr


def main():
    names = sorted(name for name in os.listdir(SEEDED) if os.path.isdir(os.path.join(SEEDED, name)))
    rows = []
    with ThreadPoolExecutor(max_workers=8) as pool:
        for name, code, output in pool.map(evaluate, names):
            with open(os.path.join(SEEDED, name, "meta.json"), "r", encoding="utf-8") as meta_file:
                meta = json.load(meta_file)
            confirmed = code == 0
            rows.append((name, meta.get("breaks_property", meta.get("property")), confirmed, meta.get("detected_by_checks", []),
                         meta.get("checks_with_analysis_error", []), meta.get("summary", "")))
            print(name, "confirmed" if confirmed else "NOT CONFIRMED", meta.get("detected_by_checks"), meta.get("checks_with_analysis_error"))
    head = subprocess.run(["git", "-C", "/repo", "rev-parse", "--short", "HEAD"], capture_output=True, text=True).stdout.strip()
    with open(os.path.join(SEEDED, "RESULTS.md"), "w", encoding="utf-8") as results:
        results.write("# Seeded breaking changes - detection by the checks (quick tier)\n\n")
        results.write("Evaluated by tools/seed_all.py against /repo at %s. Each change was produced by an independent sub-agent that saw only the "
                      "property text; it passes the existing test-suite and its demo.py fails only with the change.\n\n" % head)
        results.write("| seed | breaks | confirmed | detected by | analysis errors | change |\n|---|---|---|---|---|---|\n")
        for name, prop, confirmed, detected, errors, summary in rows:
            target_hit = prop in detected or prop == "none"
            results.write("| %s | %s | %s | %s%s | %s | %s |\n" % (name, prop if prop != "none" else "disputed: not a violation of the statement (see meta.json)", "yes" if confirmed else "NO", ", ".join(detected) or "-",
                                                              "" if target_hit else " (**target property missed**)", ", ".join(errors) or "-",
                                                              summary.replace("|", "/")[:260]))
    missed = [row[0] for row in rows if row[2] and row[1] != "none" and row[1] not in row[3]]
    print("missed by the target property's check:", missed or "none")


if __name__ == "__main__":
    main()
