#!/venv/bin/python
"""seed_batch.py <root> <tag>: evaluates every <root>/Cxx/v<k>/ (patch.diff, demo.py, meta.json) in parallel and keeps the
confirmed ones as /verif/seeded/Cxx-<tag><k>."""
import os
import subprocess
import sys
from concurrent.futures import ThreadPoolExecutor

VERIF = os.path.dirname(os.path.dirname(os.path.abspath(__file__)))


def evaluate(item):
    seed_dir, name = item
    process = subprocess.run([sys.executable, os.path.join(VERIF, "tools", "seed_eval.py"), seed_dir, "--keep", name],
                             capture_output=True, text=True, cwd=VERIF)
    lines = [line for line in process.stdout.splitlines() if line.startswith("C") and "exit" in line]
    confirmed = '"confirmed": true' in process.stdout
    return name, confirmed, lines, process.stdout[-400:] if not confirmed else ""


def main():
    root, tag = sys.argv[1], sys.argv[2]
    work = []
    for property_id in sorted(os.listdir(root)):
        directory = os.path.join(root, property_id)
        if not os.path.isdir(directory):
            continue
        for version in sorted(os.listdir(directory)):
            seed_dir = os.path.join(directory, version)
            if os.path.isdir(seed_dir) and all(os.path.exists(os.path.join(seed_dir, f)) for f in ("patch.diff", "demo.py", "meta.json")):
                work.append((seed_dir, "%s-%s%s" % (property_id, tag, version.lstrip("v"))))
    with ThreadPoolExecutor(max_workers=6) as pool:
        for name, confirmed, lines, tail in pool.map(evaluate, work):
            target = name.split("-")[0]
            fired = [line.split()[0] for line in lines if "exit  1" in line or " exit 1" in line.replace("  ", " ")]
            errors = [line.split()[0] for line in lines if "exit  2" in line]
            status = "ok" if confirmed and target in fired else ("NOT-CONFIRMED" if not confirmed else "MISSED")
            print("%-10s %-14s fired=%s errors=%s" % (name, status, fired, errors))
            if not confirmed:
                print("    ", tail.replace("\n", " | ")[-300:])


if __name__ == "__main__":
    main()
