#!/venv/bin/python
"""regress_touch.py [benign|seeded] [name prefix ...]: quick regression after a change of a shared table.  Every stored
patch is applied to a scratch copy of /repo HEAD (outside /repo and /verif) and only the checks anchored in the files
the patch touches are run (quick tier) - no test-suite, no demo (tools/benign_all.py / seed_all.py do the full job).
benign: every selected check must exit 0; seeded: the check of the patch's own property must exit 1."""
import os
import shutil
import subprocess
import sys
import tempfile
from concurrent.futures import ThreadPoolExecutor

VERIF = os.path.dirname(os.path.dirname(os.path.abspath(__file__)))
BY_FILE = {
    "validio.py": ["C04", "C05"], "interface.py": ["C09", "C20"], "applications.py": ["C18"], "rowio.py": ["C12", "C15"],
    "sql.py": ["C19"], "fields.py": ["C03"], "ranges.py": ["C03"], "checks.py": ["C05"], "data.py": ["C11"],
}


def evaluate(item):
    kind, name = item
    directory = os.path.join(VERIF, kind, name)
    patch = os.path.join(directory, "patch.diff")
    with open(patch, "r", encoding="utf-8") as patch_file:
        touched = {line.split("/")[-1].strip() for line in patch_file if line.startswith("+++ ")}
    own = name.split("-")[0]
    properties = sorted({p for file_name in touched for p in BY_FILE.get(file_name, [])}) if kind == "benign" else [own]
    scratch = tempfile.mkdtemp(prefix="regress-")
    tree = os.path.join(scratch, "tree")
    result = []
    try:
        # a plain copy of the committed tree (concurrent `git worktree add` calls race for the repository lock)
        os.makedirs(tree)
        archive = subprocess.run(["git", "-C", "/repo", "archive", "HEAD", "cutplace", "examples", "docs"], check=True, capture_output=True)
        subprocess.run(["tar", "-x", "-C", tree], input=archive.stdout, check=True)
        applied = subprocess.run(["git", "apply", "--include=cutplace/*", patch], cwd=tree, capture_output=True, text=True)
        if applied.returncode != 0:
            return name, "STALE", ""
        env = dict(os.environ, CPSA_REPO=tree, CPSA_EVIDENCE_DIR=os.path.join(scratch, "evidence"))
        for property_id in properties:
            process = subprocess.run(["/venv/bin/python", os.path.join(VERIF, "check.py"), property_id, "--tier", "quick"],
                                     cwd=VERIF, env=env, capture_output=True, text=True)
            first = [line.strip()[:200] for line in process.stdout.splitlines() if "[O" in line or "[X-" in line or line.startswith("ANALYSIS-ERROR")][:1]
            result.append((property_id, process.returncode, first))
    finally:
        shutil.rmtree(scratch, ignore_errors=True)
    if kind == "benign":
        bad = [entry for entry in result if entry[1] != 0]
        return name, "ok" if not bad else "ALARM", bad
    bad = [entry for entry in result if entry[1] != 1]
    return name, "ok" if not bad else "NOT-REPORTED", bad


def main():
    kind = sys.argv[1]
    prefixes = tuple(sys.argv[2:])
    base = os.path.join(VERIF, kind)
    names = sorted(name for name in os.listdir(base) if os.path.isdir(os.path.join(base, name)) and not name.startswith("_")
                   and os.path.exists(os.path.join(base, name, "patch.diff")) and (not prefixes or name.startswith(prefixes)))
    counts = {}
    with ThreadPoolExecutor(max_workers=int(os.environ.get("ROUND_WORKERS", "12"))) as pool:
        for name, status, detail in pool.map(evaluate, [(kind, name) for name in names]):
            counts[status] = counts.get(status, 0) + 1
            if status != "ok":
                print("%-14s %s %s" % (name, status, detail), flush=True)
    print("summary:", counts)


if __name__ == "__main__":
    main()
