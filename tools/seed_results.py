#!/venv/bin/python
"""Renders /verif/seeded/RESULTS.md from the meta.json files as they are (written by tools/seed_eval.py); no re-evaluation.
A seed counts as confirmed when seed_eval stored a commit it was confirmed on (it writes that field only on success)."""
import json
import os
import subprocess

VERIF = os.path.dirname(os.path.dirname(os.path.abspath(__file__)))
SEEDED = os.path.join(VERIF, "seeded")


def main():
    rows = []
    for name in sorted(os.listdir(SEEDED)):
        meta_path = os.path.join(SEEDED, name, "meta.json")
        if not os.path.exists(meta_path):
            continue
        with open(meta_path, "r", encoding="utf-8") as meta_file:
            meta = json.load(meta_file)
        rows.append((name, meta.get("breaks_property", meta.get("property")), meta.get("confirmed_on_repo_commit"),
                     meta.get("detected_by_checks", []), meta.get("checks_with_analysis_error", []), meta.get("summary", "")))
    head = subprocess.run(["git", "-C", "/repo", "rev-parse", "--short", "HEAD"], capture_output=True, text=True).stdout.strip()
    with open(os.path.join(SEEDED, "RESULTS.md"), "w", encoding="utf-8") as results:
        results.write("# Seeded breaking changes - detection by the checks (quick tier)\n\n")
        results.write("Rendered by tools/seed_results.py from the meta.json files written by tools/seed_eval.py (/repo is at %s; the column "
                      "'confirmed on' names the commit each change was last confirmed and evaluated on). Each change was produced by an "
                      "independent sub-agent that saw only the property text; it passes the existing test-suite and its demo.py fails only "
                      "with the change.\n\n" % head)
        results.write("| seed | breaks | confirmed on | detected by | analysis errors | change |\n|---|---|---|---|---|---|\n")
        for name, prop, commit, detected, errors, summary in rows:
            target_hit = prop in detected or prop == "none"
            results.write("| %s | %s | %s | %s%s | %s | %s |\n" % (
                name, prop if prop != "none" else "disputed: not a violation of the statement (see meta.json)", commit or "-",
                ", ".join(detected) or "-", "" if target_hit else " (**target property missed**)", ", ".join(errors) or "-",
                summary.replace("|", "/")[:260]))
    undisputed = [row for row in rows if row[1] != "none"]
    print("seeds: %d, undisputed: %d, target property reported: %d" % (len(rows), len(undisputed), sum(1 for row in undisputed if row[1] in row[3])))


if __name__ == "__main__":
    main()
