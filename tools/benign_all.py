#!/venv/bin/python
"""Re-evaluates every stored refactoring in /verif/benign against the current /repo HEAD and all checks (tools/benign_eval.py);
prints one line per patch and a summary.  Patches that no longer apply are reported as STALE (to be re-created or retired)."""
import os
import subprocess
import sys
from concurrent.futures import ThreadPoolExecutor

VERIF = os.path.dirname(os.path.dirname(os.path.abspath(__file__)))
BENIGN = os.path.join(VERIF, "benign")


def evaluate(name):
    process = subprocess.run([sys.executable, os.path.join(VERIF, "tools", "benign_eval.py"), os.path.join(BENIGN, name), "--keep", name],
                             capture_output=True, text=True, cwd=VERIF)
    output = process.stdout + process.stderr
    if "patch does not apply" in output:
        return name, "STALE", ""
    lines = [line for line in process.stdout.splitlines() if line.startswith("C") and "exit" in line]
    fired = [line.split()[0] for line in lines if "exit 1" in line.replace("  ", " ")]
    errors = [line.split()[0] for line in lines if "exit 2" in line.replace("  ", " ")]
    confirmed = '"confirmed": true' in process.stdout
    if not confirmed:
        return name, "NOT-CONFIRMED", output[-300:].replace("\n", " | ")
    if fired or errors:
        return name, "ALARM fired=%s errors=%s" % (fired, errors), ""
    return name, "ok", ""


def main():
    only = set(sys.argv[1:])
    names = sorted(name for name in os.listdir(BENIGN) if os.path.isdir(os.path.join(BENIGN, name)) and not name.startswith("_")
                   and (not only or name in only))
    counts = {}
    with ThreadPoolExecutor(max_workers=6) as pool:
        for name, status, detail in pool.map(evaluate, names):
            counts[status.split()[0]] = counts.get(status.split()[0], 0) + 1
            print("%-12s %s %s" % (name, status, detail), flush=True)
    print("summary:", counts)


if __name__ == "__main__":
    main()
