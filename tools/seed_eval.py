#!/venv/bin/python
"""
seed_eval.py <seed dir with patch.diff, demo.py, meta.json> [--properties C01,C02,...|all] [--keep NAME]

Confirms a seeded breaking change independently and runs the checks against it:
  1. fresh scratch worktree of /repo HEAD (outside /repo and /verif), demo.py must exit 0 there;
  2. `git apply patch.diff`, the test-suite must give exactly the baseline result, demo.py must exit non-zero;
  3. every requested check is run with CPSA_REPO=<scratch tree> (quick tier) and its exit code recorded;
  4. the scratch worktree is removed.
With --keep the confirmed change is stored as /verif/seeded/<NAME>/ (patch.diff, demo.py, meta.json incl. what was run).
"""
import argparse
import json
import os
import shutil
import subprocess
import sys
import tempfile

VERIF = os.path.dirname(os.path.dirname(os.path.abspath(__file__)))
KNOWN_FAIL = {
    "tests/test_data.py::DataFormatTest::test_fails_on_validated_character_with_unterminated_string",
    "tests/test_data.py::DataFormatTest::test_fails_on_validated_character_with_white_space_only",
}
ALL = ["C%02d" % i for i in range(1, 21)]


def run(cmd, cwd=None, env=None, timeout=1800):
    process = subprocess.run(cmd, cwd=cwd, env=env, capture_output=True, text=True, timeout=timeout)
    return process.returncode, process.stdout + process.stderr


def pytest_result(tree):
    env = dict(os.environ, PYTHONPATH=tree)
    code, output = run(["/venv/bin/python", "-m", "pytest", "-q", "-p", "no:cacheprovider", "--timeout=900"], cwd=tree, env=env)
    failed = {line.split()[1] for line in output.splitlines() if (line.startswith("FAILED ") or line.startswith("ERROR ")) and len(line.split()) > 1 and "::" in line.split()[1]}
    summary = [line for line in output.splitlines() if " passed" in line or " failed" in line]
    return failed, (summary[-1] if summary else output[-200:])


def main():
    parser = argparse.ArgumentParser()
    parser.add_argument("seed_dir")
    parser.add_argument("--properties", default="all")
    parser.add_argument("--keep", default=None)
    parser.add_argument("--tier", default="quick")
    args = parser.parse_args()
    seed_dir = os.path.abspath(args.seed_dir)
    patch = os.path.join(seed_dir, "patch.diff")
    demo = os.path.join(seed_dir, "demo.py")
    with open(os.path.join(seed_dir, "meta.json"), "r", encoding="utf-8") as meta_file:
        meta = json.load(meta_file)
    properties = ALL if args.properties == "all" else args.properties.split(",")
    scratch = tempfile.mkdtemp(prefix="seed-eval-")
    tree = os.path.join(scratch, "tree")
    report = {"ran": []}
    try:
        code, output = run(["git", "-C", "/repo", "worktree", "add", "-q", "--detach", tree, "HEAD"])
        if code != 0:
            raise SystemExit("cannot create worktree: " + output)
        head = run(["git", "-C", tree, "rev-parse", "--short", "HEAD"])[1].strip()
        report["repo_commit"] = head
        env = dict(os.environ, PYTHONPATH=tree)
        code_clean, output_clean = run(["/venv/bin/python", demo], cwd=scratch, env=env)
        report["demo_on_original"] = code_clean
        report["ran"].append("PYTHONPATH=<clean tree at %s> /venv/bin/python demo.py -> exit %d" % (head, code_clean))
        code, output = run(["git", "-C", tree, "apply", patch])
        if code != 0:
            raise SystemExit("patch does not apply to %s: %s" % (head, output))
        failed, summary = pytest_result(tree)
        report["pytest_with_change"] = summary
        report["pytest_unexpected_failures"] = sorted(failed - KNOWN_FAIL)
        report["ran"].append("git apply patch.diff; pytest -> %s (unexpected failures: %s)" % (summary.strip(), sorted(failed - KNOWN_FAIL) or "none"))
        code_changed, output_changed = run(["/venv/bin/python", demo], cwd=scratch, env=env)
        report["demo_with_change"] = code_changed
        report["demo_output_with_change"] = output_changed.strip().splitlines()[-3:]
        report["ran"].append("PYTHONPATH=<changed tree> /venv/bin/python demo.py -> exit %d" % code_changed)
        confirmed = code_clean == 0 and code_changed != 0 and not (failed - KNOWN_FAIL) and KNOWN_FAIL <= failed | KNOWN_FAIL
        report["confirmed"] = bool(confirmed)
        detection = {}
        check_env = dict(os.environ, CPSA_REPO=tree, CPSA_EVIDENCE_DIR=os.path.join(scratch, "evidence"), VERIF_TIER=args.tier)
        for property_id in properties:
            code, output = run(["/venv/bin/python", os.path.join(VERIF, "check.py"), property_id, "--tier", args.tier], cwd=VERIF, env=check_env)
            lines = [line.strip() for line in output.splitlines() if "[O" in line][:2]
            detection[property_id] = {"exit": code, "first_reports": [line[:300] for line in lines]}
        report["checks"] = detection
        report["detected_by"] = sorted(pid for pid, result in detection.items() if result["exit"] == 1)
        report["analysis_errors"] = sorted(pid for pid, result in detection.items() if result["exit"] == 2)
        report["ran"].append("check.py <id> --tier %s with CPSA_REPO=<changed tree> for %s" % (args.tier, ",".join(properties)))
    finally:
        run(["git", "-C", "/repo", "worktree", "remove", "--force", tree])
        shutil.rmtree(scratch, ignore_errors=True)
    print(json.dumps({k: v for k, v in report.items() if k != "checks"}, indent=1))
    for property_id, result in report.get("checks", {}).items():
        if result["exit"] != 0:
            print(property_id, "exit", result["exit"], *result["first_reports"][:1], sep="  ")
    if args.keep and report.get("confirmed"):
        target = os.path.join(VERIF, "seeded", args.keep)
        os.makedirs(target, exist_ok=True)
        if os.path.abspath(target) != seed_dir:
            shutil.copy(patch, os.path.join(target, "patch.diff"))
            shutil.copy(demo, os.path.join(target, "demo.py"))
        meta.update({
            "breaks_property": meta.get("breaks_property", meta.get("property")),
            "confirmed_on_repo_commit": report["repo_commit"],
            "what_was_run": report["ran"],
            "pytest_with_change": report["pytest_with_change"].strip(),
            "detected_by_checks": report["detected_by"],
            "checks_with_analysis_error": report["analysis_errors"],
            "first_reports": {pid: r["first_reports"][:1] for pid, r in report["checks"].items() if r["exit"] == 1},
        })
        with open(os.path.join(target, "meta.json"), "w", encoding="utf-8") as meta_file:
            json.dump(meta, meta_file, indent=1)
        print("kept as", target)
    return 0 if report.get("confirmed") else 1


if __name__ == "__main__":
    sys.exit(main())
