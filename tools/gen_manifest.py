#!/venv/bin/python
"""Writes /verif/MANIFEST.json from the table below (single source of truth for what is claimed)."""
import json
import os

VERIF = os.path.dirname(os.path.dirname(os.path.abspath(__file__)))

CLAIMED = {
    "C01": {
        "technique": "abstract interpretation of the range parsers and validators over order symbols (all weak orderings), token-sequence tables, constant folding",
        "text": "All-input decision of the membership rule (Range/DecimalRange.validate, _item_contains) over every ordering of probe and limits; both constructors decided on every abstract token sequence up to a bound against a reference reading of the grammar incl. overall limits; ellipsis spellings must reach the tokenizer as an emittable operator.",
        "note": "Assumes the Python tokenizer, int(text, 0) and decimal.Decimal behave as documented; constructor tables are bounded in token count (5 quick / 7 thorough).",
        "design_ref": "DESIGN.md section 3, C01 (and the additions of rounds 3 and 6 to 11 listed below that table)",
    },
    "C02": {
        "technique": "per-type decision tables by abstract interpretation: Integer range selection and value path, Decimal separator translation over character classes, Choice/Constant exactness, DateTime layout table and strptime path, RegEx/Pattern flags and anchoring, length-derived integer range over region representatives, Choice/Constant rule automata",
        "text": "Each field type's decision structure is decided against the statement for all abstract inputs (library calls stubbed with every outcome); the length-derived integer range equals 'text has between lower and upper characters' on every boundary value of every region of (lower, upper).",
        "note": "int(), Decimal(), strptime, re and fnmatch semantics trusted; Decimal strings bounded at 4 (5) characters over 3 classes; create_range_from_length decided through region representatives with an affinity side condition.",
        "design_ref": "DESIGN.md section 3, C02 (and the additions of rounds 3 and 6 to 11 listed below that table)",
    },
    "C03": {
        "technique": "decision table of the guard template AbstractFieldFormat.validated by abstract interpretation (EMPTY/BLANKS/TEXT x format x flags x per-character verdicts x length orderings) plus override / guard-state / argument-forwarding rules over all field classes",
        "text": "The guard template is decided for every abstract cell, format, flag and collaborator outcome; no shipped field class can bypass it (no override, no re-assignment of guard state, flags forwarded unchanged).",
        "note": "Range.validate semantics are C01's; fixed-width cells wider than their field are not compared (cannot come from the fixed reader).",
        "design_ref": "DESIGN.md section 3, C03 (and the additions of rounds 3 and 6 to 11 listed below that table)",
    },
    "C04": {
        "technique": "event-trace decision tables of BaseValidator.validate_row and Reader.rows by abstract interpretation with recording collaborators; region-representative table of Location rendering; copy rule for error locations",
        "text": "validate_row decided for every row width, cell kind and collaborator outcome (count check, column order, cursor on the culprit, first failure wins, error names the field and carries a copy of the cursor); cursor line = raw row index for every header/limit ordering; Location renders 1-based.",
        "note": "Per-field and per-check verdicts are C02/C03/C05's; raw readers are C12-C16's.",
        "design_ref": "DESIGN.md section 3, C04 (and the additions of rounds 3 and 6 to 11 listed below that table)",
    },
    "C05": {
        "technique": "abstract interpretation of IsUniqueCheck / DistinctCountCheck on all row sequences over a two-letter alphabet of equality atoms with one moving location cursor; reset-completeness rule",
        "text": "Duplicate detection over all key fields, located at the later row with see-also at the first occurrence (copy), forgotten by reset; distinct count = number of distinct values, end verdict iff expression false; checks see only fully accepted rows.",
        "note": "eval() of the comparison text is trusted; sequences bounded at 3 rows quick / 4 thorough (alphabet of two values per key field).",
        "design_ref": "DESIGN.md section 3, C05 (and the additions of rounds 3 and 6 to 11 listed below that table)",
    },
    "C06": {
        "technique": "event-trace decision tables of Reader.rows and validio.rows by abstract interpretation over modes x row outcomes x container faults at every row boundary",
        "text": "Per-row oracle shared by the three modes (same row object returned, own error yielded/raised, counters move exactly once per data row and add up), container faults stop reading in every mode, errors keep copies of the cursor.",
        "note": "Which exceptions the raw readers convert into DataFormatError is C10's escape analysis; 0..3 raw rows per run.",
        "design_ref": "DESIGN.md section 3, C06 (and the additions of rounds 3 and 6 to 11 listed below that table)",
    },
    "C07": {
        "technique": "abstract interpretation of Reader.rows / validio.rows / validio.validate with header and limit as order symbols (all orderings against raw row numbers)",
        "text": "Row k is skipped iff k <= header, validated iff header < k <= limit, returned unvalidated beyond the limit; validate() stops after limit returned rows and does not start for limit 0.",
        "note": "0..3 raw rows per run; --until mapping decided in C18.",
        "design_ref": "DESIGN.md section 3, C07 (and the additions of rounds 3 and 6 to 11 listed below that table)",
    },
    "C08": {
        "technique": "typestate 'reset before use per run' decided by abstract interpretation of all operation histories on one CID with recording checks; reset-completeness and no-shared-state rules",
        "text": "All histories of 2 (thorough 3) operations from 10 reader/writer/API operations: every check is reset before its first use in each operation; reset() re-initialises everything a check mutates; no class-level mutable state.",
        "note": "Plugin checks must implement reset() completely.",
        "design_ref": "DESIGN.md section 3, C08 (and the additions of rounds 3 and 6 to 11 listed below that table)",
    },
    "C09": {
        "technique": "decision tables of Cid.read / add_data_format_row / add_field_format_row / add_check_row / validated_field_name / IsUnique rule parsing by abstract interpretation with stubbed constructors; call-graph rule that every InterfaceError leaving Cid.read is located",
        "text": "Row dispatch, cursor advance, row-order acceptance (every sequence of up to 3 (4) row kinds), field-name alphabet, empty mark, length ladder per format, example validation, duplicate refusal, IsUnique rule automaton; all rejections are InterfaceErrors at the offending row; every reachable InterfaceError raise carries a location or is completed by the field-construction wrapper.",
        "note": "Completeness against an external defect catalogue is not claimed; field/check constructors are C01/C02/C05's.",
        "design_ref": "DESIGN.md section 3, C09 (and the additions of rounds 3 and 6 to 11 listed below that table)",
    },
    "C10": {
        "technique": "exception-escape fixpoint over the resolved call graph (raise sites, frozen external-raiser table, assert triage, handler lattice) at every API entry point; error-mode token tables of the range constructors",
        "text": "For each entry point (CID loading, rows/validate, Reader, Writer, the command line's process) every escaping exception class is inside the allowed cutplace/OSError set or named with its raising site and call chain; 146 value-dependent asserts triaged; range constructors never raise anything but InterfaceError on any token sequence.",
        "note": "Unmodelled: type errors of type-correct code, StopIteration of the repository's own token generators, resource exhaustion, plugin code; external raisers are a frozen table with reasons. Known findings F18 (ODS OSError) and F27 (--create on open Integer range).",
        "design_ref": "DESIGN.md section 2.2 and section 3, C10",
    },
    "C11": {
        "technique": "decision tables of DataFormat.__init__/set_property/setters/_validated_* and validate by abstract interpretation over format x property x value pools folded from the module's constants; token-kind table of _validated_character; documentation agreement",
        "text": "Every (format, property, value) from the pools is set to the documented internal value or refused with a located InterfaceError, never another exception; defaults as documented; character spellings go through the same helpers as ranges; the three documented contradictions are refused by validate; documented properties and quote characters agree with the code.",
        "note": "Value pools are the module's own constant sets plus representative invalid values; codec names are decided by codecs.lookup.",
        "design_ref": "DESIGN.md section 3, C11 (and the additions of rounds 3 and 6 to 11 listed below that table)",
    },
    "C12": {
        "technique": "sibling agreement of the csv dialect handed to reader and writer (abstract interpretation with recording csv stubs), decision table of the dialect builder, consistency matrix of DataFormat.validate against the roles a csv dialect can disambiguate, newline='' rule",
        "text": "Reader and writer always get the same dialect derived from the data format; escape=quote -> doublequote, else escapechar; strict on; every accepted configuration keeps item delimiter distinct from quote, from a separate escape character, from CR/LF and from the line delimiter; both file opens use newline=''.",
        "note": "The csv module's quoting/escaping algorithm itself is trusted: round-trip equality is a runtime relation and is NOT decided, only the conditions cutplace must establish for it.",
        "design_ref": "DESIGN.md section 3, C12 (and the additions of rounds 3 and 6 to 11 listed below that table)",
    },
    "C13": {
        "technique": "abstract interpretation of rowio.fixed_rows (incl. nested delimiter automaton and push-back) on every abstract character stream over the class abstraction {CR, LF, other} up to a length bound; oracle = the statement (identity-tracked reproduction of the input, reference segmentation)",
        "text": "For every stream up to 5 (thorough 7) abstract characters, three width lists and the five delimiter settings: rows have exact widths and reproduce the input with permitted delimiters, or DataFormatError is raised and no well-formed segmentation exists.",
        "note": "Streams bounded in length; under 'any' CR LF is one delimiter (inputs only well-formed when that LF is data are ambiguous and not compared); read(n) semantics of text streams trusted.",
        "design_ref": "DESIGN.md section 3, C13 (and the additions of rounds 3 and 6 to 11 listed below that table)",
    },
    "C14": {
        "technique": "event-trace decision tables of Writer.__init__/write_row/close and the row writers by abstract interpretation (header orderings, validation outcomes, short/exact fixed cells, declared line delimiters)",
        "text": "Validate before emit past the header, nothing emitted for a rejected row, writer usable afterwards, rows emitted unchanged / right-padded with blanks to the width, lines ended by the declared delimiter, close runs end checks and closes the delegate.",
        "note": "Read-back equality is not decided (composition with C12/C13); 0..3 rows per run.",
        "design_ref": "DESIGN.md section 3, C14 (and the additions of rounds 3 and 6 to 11 listed below that table)",
    },
    "C15": {
        "technique": "abstract interpretation of rowio.ods_rows on abstract OpenDocument element trees (equality-atom texts, ElementTree API model) covering every ODF construct of the statement, column/row runs, repeat-count faults and sheet selection",
        "text": "For each ODF text construct x column run the cell text read equals the logical text fragment by fragment; broken repeat counts and missing sheets are DataFormatErrors; the requested sheet is read.",
        "note": "ElementTree's own decoding trusted; container faults via C06/C10 escape analysis; known finding F17a (number-rows-repeated ignored).",
        "design_ref": "DESIGN.md section 3, C15 (and the additions of rounds 3 and 6 to 11 listed below that table)",
    },
    "C16": {
        "technique": "abstract interpretation of rowio.excel_rows on a stubbed multi-sheet workbook, decision table of _excel_cell_value over cell kinds, event trace of XlsxRowWriter",
        "text": "Sheet 'sheet - 1' is read row-major at full width, a missing sheet is a DataFormatError; cell kinds render as documented (dates via datetime, time-only iff date part zero, '.0' stripped for number cells only, booleans 1/0, error texts); the xlsx writer writes strings at (line, cell).",
        "note": "xlrd's cell typing / date conversion, str(float) and xlsxwriter output are trusted.",
        "design_ref": "DESIGN.md section 3, C16 (and the additions of rounds 3 and 6 to 11 listed below that table)",
    },
    "C17": {
        "technique": "dispatch tables of rowio.auto_rows, Reader._raw_rows and Writer.__init__ by abstract interpretation; construction of every built-in field type under DataFormat objects built by the repository's constructor for each format (attribute availability)",
        "text": "Suffix and format dispatch reach the matching reader/writer with the data format's own settings for every valid format; every field type constructs under every format (no format-specific attribute read unguarded).",
        "note": "Necessary conditions only: equality of verdicts across storage formats is not decided (depends on C12-C16).",
        "design_ref": "DESIGN.md section 3, C17 (and the additions of rounds 3 and 6 to 11 listed below that table)",
    },
    "C18": {
        "technique": "decision tables of applications.main / process / CutplaceApp.validate / set_options by abstract interpretation over outcome classes of process(), per-file Reader outcomes and --until regions",
        "text": "Exit-code mapping for every outcome class; every list of 0..3 files over {accepted, rejected row, rejected at end, unreadable}: files attempted in order with a fresh Reader on the shared CID, 1 iff some file rejected, unreadable -> EnvironmentError (3); --until regions mapped to the API limit.",
        "note": "argparse behaviour trusted; what the API accepts is C04-C08's; that OSError from the readers stays OSError is part of C10's escape analysis.",
        "design_ref": "DESIGN.md section 3, C18 (and the additions of rounds 3 and 6 to 11 listed below that table)",
    },
    "C19": {
        "technique": "abstract interpretation of SqlFactory.create_table_statement, IntegerFieldFormat.sql_ansi_type and the four dialect ladders over region representatives at every type boundary (both signs) against a frozen capacity table; folded keyword sets",
        "text": "One column per field in order, dialect keywords quoted, NOT NULL polarity; for all limit pairs from the boundary set the chosen integer/decimal type stores both limits, sizes are digit counts, integer types print no size; decimal/text sizes flow from rule/length.",
        "note": "ANSI int and Oracle int capacity undecided (implementation-defined); known finding F19a (Transact tinyint for negative limits).",
        "design_ref": "DESIGN.md section 3, C19 (and the additions of rounds 3 and 6 to 11 listed below that table)",
    },
    "C20": {
        "technique": "call-protocol event traces decided by abstract interpretation of validated / validate_row / Reader.rows / rows / validate / close / Writer with recording plugins; class-resolution tables",
        "text": "Hook only for non-empty, allowed, in-length cells; columns in order, stop at first rejection; checks in declaration order after all cells passed; one reset before the first row; no calls outside the header/limit window; end verdicts once in order then cleanup; plugins resolve like built-ins.",
        "note": "Plugins subclass the abstract bases directly; plugin code itself is not analysed.",
        "design_ref": "DESIGN.md section 3, C20 (and the additions of rounds 3 and 6 to 11 listed below that table)",
    },
}

NOT_APPLICABLE = {}

PENDING_REASON = "check not built yet in this session (static rules planned in DESIGN.md section 4); not claimed until it runs"


def main():
    with open(os.path.join(VERIF, "properties.jsonl"), "r", encoding="utf-8") as properties_file:
        property_ids = [json.loads(line)["id"] for line in properties_file if line.strip()]
    checks = []
    not_applicable = []
    for property_id in property_ids:
        claim = CLAIMED.get(property_id)
        if claim is None:
            not_applicable.append({"property_id": property_id, "reason": NOT_APPLICABLE.get(property_id, PENDING_REASON)})
            continue
        checks.append(
            {
                "property_id": property_id,
                "quick_cmd": "/venv/bin/python check.py %s --tier quick" % property_id,
                "thorough_cmd": "/venv/bin/python check.py %s --tier thorough" % property_id,
                "evidence_file": "/verif/evidence/%s.json" % property_id,
                "replay_cmd_template": "/venv/bin/python check.py %s --replay {path}" % property_id,
                "engine": "cpsa",
                "level_claimed": {"category": "other", "text": claim["text"] + " Also: no module- or class-level run-time state in the property's anchor files (X-STATE).", "design_ref": claim["design_ref"]},
                "level_note": claim["note"],
                "technique": claim["technique"],
            }
        )
    manifest = {
        "version": 1,
        "setup_cmd": "/venv/bin/python -m compileall -q cpsa check.py && /venv/bin/python check.py --help > /dev/null",
        "hooks": {
            "guard": "CUTPLACE_VERIF",
            "enable": "none needed: the analysis reads the sources of /repo and requires no instrumentation",
            "baseline_off_cmd": "cd /repo && /venv/bin/python -m pytest -ra -q -p no:cacheprovider --timeout=900 --continue-on-collection-errors",
            "source_commits": [],
            "add_only": True,
        },
        "engines": [
            {
                "name": "cpsa",
                "path": "/verif/cpsa",
                "serves_properties": sorted(CLAIMED),
                "kind_free_text": "repository-specific static analysis: AST program model, constant folding, finite-domain abstract interpretation (decision tables), definite-assignment and hidden-state analyses, exception-escape fixpoint",
            }
        ],
        "checks": checks,
        "not_applicable": not_applicable,
        "notes": "Static analysis only; nothing imports or executes cutplace. Exit 0 clean / 1 VIOLATION / 2 ANALYSIS-ERROR. Known findings in /verif/known_findings.json.",
    }
    with open(os.path.join(VERIF, "MANIFEST.json"), "w", encoding="utf-8") as manifest_file:
        json.dump(manifest, manifest_file, indent=1)
    print("claimed: %s; not applicable/pending: %d" % (", ".join(sorted(CLAIMED)), len(not_applicable)))


if __name__ == "__main__":
    main()
