#!/venv/bin/python
"""Writes /verif/MANIFEST.json from the table below (single source of truth for what is claimed)."""
import json
import os

VERIF = os.path.dirname(os.path.dirname(os.path.abspath(__file__)))

CLAIMED = {
    "C01": {
        "technique": "abstract interpretation of the range parsers and validators over order symbols (all weak orderings), token-sequence tables, constant folding",
        "text": "All-input decision of the membership rule (Range/DecimalRange.validate, _item_contains) over every ordering of probe and limits; both constructors decided on every abstract token sequence up to a bound against a reference reading of the grammar incl. overall limits; ellipsis spellings must reach the tokenizer as an emittable operator.",
        "note": "Assumes the Python tokenizer, int(text, 0) and decimal.Decimal behave as documented; constructor tables are bounded in token count (5 quick / 7 thorough).",
        "design_ref": "DESIGN.md section 4, C01",
    },
}

NOT_APPLICABLE = {}

PENDING_REASON = "check not built yet in this session (static rules planned in DESIGN.md section 4); not claimed until it runs"


def main():
    with open(os.path.join(VERIF, "properties.jsonl"), "r", encoding="utf-8") as properties_file:
        property_ids = [json.loads(line)["id"] for line in properties_file if line.strip()]
    checks = []
    not_applicable = []
    for property_id in property_ids:
        claim = CLAIMED.get(property_id)
        if claim is None:
            not_applicable.append({"property_id": property_id, "reason": NOT_APPLICABLE.get(property_id, PENDING_REASON)})
            continue
        checks.append(
            {
                "property_id": property_id,
                "quick_cmd": "/venv/bin/python check.py %s --tier quick" % property_id,
                "thorough_cmd": "/venv/bin/python check.py %s --tier thorough" % property_id,
                "evidence_file": "/verif/evidence/%s.json" % property_id,
                "replay_cmd_template": "/venv/bin/python check.py %s --replay {path}" % property_id,
                "engine": "cpsa",
                "level_claimed": {"category": "other", "text": claim["text"], "design_ref": claim["design_ref"]},
                "level_note": claim["note"],
                "technique": claim["technique"],
            }
        )
    manifest = {
        "version": 1,
        "setup_cmd": "/venv/bin/python -m compileall -q cpsa check.py && /venv/bin/python check.py --help > /dev/null",
        "hooks": {
            "guard": "CUTPLACE_VERIF",
            "enable": "none needed: the analysis reads the sources of /repo and requires no instrumentation",
            "baseline_off_cmd": "cd /repo && /venv/bin/python -m pytest -ra -q -p no:cacheprovider --timeout=900 --continue-on-collection-errors",
            "source_commits": [],
            "add_only": True,
        },
        "engines": [
            {
                "name": "cpsa",
                "path": "/verif/cpsa",
                "serves_properties": sorted(CLAIMED),
                "kind_free_text": "repository-specific static analysis: AST program model, constant folding, finite-domain abstract interpretation (decision tables), CFG/dominators, exception-escape fixpoint",
            }
        ],
        "checks": checks,
        "not_applicable": not_applicable,
        "notes": "Static analysis only; nothing imports or executes cutplace. Exit 0 clean / 1 VIOLATION / 2 ANALYSIS-ERROR. Known findings in /verif/known_findings.json.",
    }
    with open(os.path.join(VERIF, "MANIFEST.json"), "w", encoding="utf-8") as manifest_file:
        json.dump(manifest, manifest_file, indent=1)
    print("claimed: %s; not applicable/pending: %d" % (", ".join(sorted(CLAIMED)), len(not_applicable)))


if __name__ == "__main__":
    main()
