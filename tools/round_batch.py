#!/venv/bin/python
"""round_batch.py <root> <tag>: evaluates every <root>/Cxx/<name>/ (patch.diff, demo.py, meta.json) in parallel.  Breaking
changes (meta kind "breaking") go through seed_eval.py and are kept as /verif/seeded/Cxx-<tag><name>; refactorings (kind
"refactoring") go through benign_eval.py and are kept as /verif/benign/Cxx-<tag><name>."""
import json
import os
import subprocess
import sys
from concurrent.futures import ThreadPoolExecutor

VERIF = os.path.dirname(os.path.dirname(os.path.abspath(__file__)))


def evaluate(item):
    directory, name, kind = item
    tool = "seed_eval.py" if kind == "breaking" else "benign_eval.py"
    process = subprocess.run([sys.executable, os.path.join(VERIF, "tools", tool), directory, "--keep", name],
                             capture_output=True, text=True, cwd=VERIF)
    lines = [line for line in process.stdout.splitlines() if line.startswith("C") and "exit" in line]
    confirmed = '"confirmed": true' in process.stdout
    return name, kind, confirmed, lines, process.stdout[-600:] if not confirmed else ""


def main():
    root, tag = sys.argv[1], sys.argv[2]
    only = set(sys.argv[3:])
    work = []
    for property_id in sorted(os.listdir(root)):
        base = os.path.join(root, property_id)
        if not os.path.isdir(base):
            continue
        for version in sorted(os.listdir(base)):
            directory = os.path.join(base, version)
            if os.path.isdir(directory) and all(os.path.exists(os.path.join(directory, f)) for f in ("patch.diff", "demo.py", "meta.json")):
                with open(os.path.join(directory, "meta.json"), "r", encoding="utf-8") as meta_file:
                    kind = json.load(meta_file).get("kind", "breaking" if version.startswith(("b", "v")) else "refactoring")
                name = "%s-%s%s" % (property_id, tag, version)
                if not only or name in only or property_id in only:
                    work.append((directory, name, kind))
    with ThreadPoolExecutor(max_workers=int(os.environ.get("ROUND_WORKERS", "6"))) as pool:
        for name, kind, confirmed, lines, tail in pool.map(evaluate, work):
            target = name.split("-")[0]
            fired = [line.split()[0] for line in lines if " exit  1" in line or "exit 1" in line.replace("  ", " ")]
            errors = [line.split()[0] for line in lines if "exit  2" in line or "exit 2" in line.replace("  ", " ")]
            if not confirmed:
                status = "NOT-CONFIRMED"
            elif kind == "breaking":
                status = "ok" if target in fired else "MISSED"
            else:
                status = "ok" if not fired and not errors else ("FALSE-ALARM?" if fired else "ENGINE-GAP")
            print("%-12s %-11s %-14s fired=%s errors=%s" % (name, kind, status, fired, errors))
            for line in lines:
                if kind != "breaking":
                    print("      ", line[:260])
            if not confirmed:
                print("    ", tail.replace("\n", " | ")[-400:])


if __name__ == "__main__":
    main()
