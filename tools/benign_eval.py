#!/venv/bin/python
"""
benign_eval.py <dir with patch.diff, demo.py, meta.json> [--keep NAME] [--properties C01,...|all]

Confirms a behaviour-preserving refactoring independently and runs the checks against it:
  1. fresh scratch worktree of /repo HEAD (outside /repo and /verif); demo.py is run there and its transcript kept;
  2. `git apply patch.diff`; the test-suite must give exactly the baseline result; demo.py must exit 0 with the IDENTICAL
     transcript;
  3. every requested check is run with CPSA_REPO=<scratch tree> (quick tier); the verdict of each check must be the one
     it gives on the unchanged tree (exit 0; known findings stay known findings);
  4. the scratch worktree is removed.
With --keep the confirmed refactoring is stored as /verif/benign/<NAME>/ and from then on applied by the thorough tier's
self-test of every property as a variant that must not change the verdict.
"""
import argparse
import json
import os
import shutil
import subprocess
import sys
import tempfile

VERIF = os.path.dirname(os.path.dirname(os.path.abspath(__file__)))
sys.path.insert(0, os.path.join(VERIF, "tools"))
from seed_eval import ALL, KNOWN_FAIL, pytest_result, run  # noqa: E402


def main():
    parser = argparse.ArgumentParser()
    parser.add_argument("directory")
    parser.add_argument("--properties", default="all")
    parser.add_argument("--keep", default=None)
    args = parser.parse_args()
    directory = os.path.abspath(args.directory)
    patch = os.path.join(directory, "patch.diff")
    demo = os.path.join(directory, "demo.py")
    with open(os.path.join(directory, "meta.json"), "r", encoding="utf-8") as meta_file:
        meta = json.load(meta_file)
    properties = ALL if args.properties == "all" else args.properties.split(",")
    scratch = tempfile.mkdtemp(prefix="benign-eval-")
    tree = os.path.join(scratch, "tree")
    report = {"ran": []}
    try:
        code, output = run(["git", "-C", "/repo", "worktree", "add", "-q", "--detach", tree, "HEAD"])
        if code != 0:
            raise SystemExit("cannot create worktree: " + output)
        report["repo_commit"] = run(["git", "-C", tree, "rev-parse", "--short", "HEAD"])[1].strip()
        env = dict(os.environ, PYTHONPATH=tree, PYTHONWARNINGS="ignore")
        code_clean, output_clean = run(["/venv/bin/python", demo], cwd=scratch, env=env)
        code, output = run(["git", "-C", tree, "apply", patch])
        if code != 0:
            raise SystemExit("patch does not apply to %s: %s" % (report["repo_commit"], output))
        failed, summary = pytest_result(tree)
        report["pytest_with_change"] = summary.strip()
        code_changed, output_changed = run(["/venv/bin/python", demo], cwd=scratch, env=env)
        normalise = lambda text: text.replace(tree, "<tree>")  # noqa: E731
        same_transcript = normalise(output_clean) == normalise(output_changed)
        report["demo"] = {"exit_original": code_clean, "exit_changed": code_changed, "identical_transcript": same_transcript}
        report["ran"].append("demo.py on the clean tree at %s -> exit %d; git apply; pytest -> %s; demo.py -> exit %d, transcript %s"
                             % (report["repo_commit"], code_clean, summary.strip(), code_changed, "identical" if same_transcript else "DIFFERENT"))
        report["confirmed"] = bool(code_clean == 0 and code_changed == 0 and same_transcript and not (failed - KNOWN_FAIL))
        check_env = dict(os.environ, CPSA_REPO=tree, CPSA_EVIDENCE_DIR=os.path.join(scratch, "evidence"))
        verdicts = {}
        for property_id in properties:
            code, output = run(["/venv/bin/python", os.path.join(VERIF, "check.py"), property_id, "--tier", "quick"], cwd=VERIF, env=check_env)
            interesting = [line.strip()[:400] for line in output.splitlines() if "[O" in line or "[X-" in line or line.startswith("ANALYSIS-ERROR")]
            verdicts[property_id] = {"exit": code, "reports": interesting[:3]}
        report["checks"] = verdicts
        report["alarms"] = sorted(pid for pid, v in verdicts.items() if v["exit"] == 1)
        report["analysis_errors"] = sorted(pid for pid, v in verdicts.items() if v["exit"] == 2)
    finally:
        run(["git", "-C", "/repo", "worktree", "remove", "--force", tree])
        shutil.rmtree(scratch, ignore_errors=True)
    print(json.dumps({k: v for k, v in report.items() if k != "checks"}, indent=1))
    for property_id, verdict in report.get("checks", {}).items():
        if verdict["exit"] != 0:
            print(property_id, "exit", verdict["exit"], *verdict["reports"][:2], sep="  ")
    if args.keep and report.get("confirmed"):
        target = os.path.join(VERIF, "benign", args.keep)
        os.makedirs(target, exist_ok=True)
        if os.path.abspath(target) != directory:
            shutil.copy(patch, os.path.join(target, "patch.diff"))
            shutil.copy(demo, os.path.join(target, "demo.py"))
        meta.update({"confirmed_on_repo_commit": report["repo_commit"], "what_was_run": report["ran"], "demo": report["demo"],
                     "checks_raising_an_alarm": report["alarms"], "checks_with_analysis_error": report["analysis_errors"]})
        with open(os.path.join(target, "meta.json"), "w", encoding="utf-8") as meta_file:
            json.dump(meta, meta_file, indent=1)
        print("kept as", target)
    return 0 if report.get("confirmed") else 1


if __name__ == "__main__":
    sys.exit(main())
