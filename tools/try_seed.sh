#!/bin/bash
# try_seed.sh <seed name under /verif/seeded> <property>...: applies the patch to a scratch copy and runs the quick checks
seed=$1; shift
scratch=$(mktemp -d /tmp/try-seed-XXXXXX)
rsync -a --exclude .git --exclude "*.pyc" /repo/ "$scratch/"
( cd "$scratch" && git apply --whitespace=nowarn "/verif/seeded/$seed/patch.diff" ) || { echo "patch failed"; rm -rf "$scratch"; exit 3; }
for p in "$@"; do
  CPSA_REPO="$scratch" CPSA_EVIDENCE_DIR="$scratch/_ev" /venv/bin/python /verif/check.py "$p" 2>&1 | grep -E "^\s+cutplace|ANALYSIS|exit|Traceback|Error" | cut -c1-${WIDTH:-330} | tail -${LINES_:-8}
done
rm -rf "$scratch"
