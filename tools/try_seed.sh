#!/bin/bash
# try_seed.sh <name under /verif/seeded or /verif/benign, or a directory> <property>...: applies the patch to a scratch copy and runs the quick checks
seed=$1; shift
scratch=$(mktemp -d /tmp/try-seed-XXXXXX)
rsync -a --exclude .git --exclude "*.pyc" /repo/ "$scratch/"
dir="/verif/seeded/$seed"; [ -d "$dir" ] || dir="/verif/benign/$seed"; [ -d "$dir" ] || dir="$seed"
( cd "$scratch" && git apply --whitespace=nowarn "$dir/patch.diff" ) || { echo "patch failed"; rm -rf "$scratch"; exit 3; }
for p in "$@"; do
  CPSA_REPO="$scratch" CPSA_EVIDENCE_DIR="$scratch/_ev" /venv/bin/python /verif/check.py "$p" 2>&1 | grep -E "^\s+cutplace|ANALYSIS|exit|Traceback|Error" | cut -c1-${WIDTH:-330} | tail -${LINES_:-8}
done
rm -rf "$scratch"
